package harness

// Registry under real parallelism (C12's "calls from many goroutines"): several goroutines
// open reverse tunnels with fresh and colliding affinity keys while others wait for, query
// and route through the same keys, free-running on all Ps. During this phase the set of open
// tunnels only grows, so what must hold at the end does not depend on the schedule:
//
//   * every key with an open tunnel is Ready and routes to a tunnel with that key,
//     AllReverseTunnels lists exactly the tunnels that opened;
//   * every WaitForReady on a key that got a tunnel has returned nil. A call that is still
//     pending is judged by state, not by time: the key is Ready and the waiting goroutine is
//     parked in its select - the latch it holds will never be closed;
//   * an RPC that was served was served by a tunnel with the right key.
//
// Then everything is closed and the registry must be empty at both levels.

import (
	"context"
	"fmt"
	"runtime"
	"sort"
	"strings"
	"sync"
	"sync/atomic"
	"testing"
	"time"

	"github.com/jhump/grpctunnel"
	"pgregory.net/rapid"
)

func genStressReg(t *rapid.T) *Case {
	c := &Case{Prop: "stress_reg", Free: true}
	c.Cfg = Config{Dir: "rev", ClientFC: "on", ServerFC: "on", HasKeyFn: rapid.IntRange(0, 5).Draw(t, "keyfn") > 0}
	g := rapid.IntRange(2, 8).Draw(t, "goroutines")
	nkeys := rapid.IntRange(1, 4).Draw(t, "nkeys")
	keys := []string{}
	for i := 0; i < nkeys; i++ {
		keys = append(keys, fmt.Sprintf("k%d", i))
	}
	via := func(l string) string {
		if rapid.IntRange(0, 3).Draw(t, l+".all") == 0 {
			return "all"
		}
		if !c.Cfg.HasKeyFn {
			return "key:<nil>"
		}
		return "key:" + rapid.SampledFrom(keys).Draw(t, l+".key")
	}
	opens := 0
	for gi := 0; gi < g; gi++ {
		n := rapid.IntRange(1, 4).Draw(t, fmt.Sprintf("g%d.n", gi))
		for j := 0; j < n; j++ {
			l := fmt.Sprintf("g%d.op%d", gi, j)
			k := rapid.SampledFrom([]string{"open", "open", "wait", "wait", "ready", "rpc", "all"}).Draw(t, l)
			op := RegOp{Kind: k, G: gi}
			switch k {
			case "open":
				op.Key = rapid.SampledFrom(keys).Draw(t, l+".key")
				opens++
			case "wait", "ready", "rpc":
				op.Via = via(l)
			}
			c.Reg = append(c.Reg, op)
		}
	}
	if opens == 0 {
		c.Reg = append(c.Reg, RegOp{Kind: "open", Key: keys[0], G: 0})
	}
	c.StableRounds = rapid.SampledFrom([]int{0, 40, 120, 300}).Draw(t, "stable_rounds")
	if rapid.IntRange(0, 2).Draw(t, "yield") == 0 {
		c.Yields = append(c.Yields, Yield{Point: rapid.SampledFrom([]string{"handler.reverse.betweenAdds", "cb.affinity", "cb.open"}).Draw(t, "yield.point"),
			Nth: rapid.IntRange(0, 3).Draw(t, "yield.nth"), Repeat: rapid.IntRange(1, 4).Draw(t, "yield.rep"), Kind: rapid.SampledFrom([]string{"gosched", "sleep"}).Draw(t, "yield.kind")})
	}
	return c
}

//go:noinline
func stressRegWaiter(cc grpctunnel.ReverseClientConnInterface, ctx context.Context) error {
	return cc.WaitForReady(ctx)
}

// waiterStates returns the scheduler states of all goroutines currently inside stressRegWaiter.
func waiterStates() []string {
	buf := make([]byte, 1<<20)
	n := runtime.Stack(buf, true)
	var out []string
	for _, g := range strings.Split(string(buf[:n]), "\n\n") {
		if !strings.Contains(g, "stressRegWaiter") {
			continue
		}
		if m := goroutineHeader.FindStringSubmatch(g); m != nil {
			out = append(out, m[1])
		}
	}
	return out
}

func execStressReg(t *testing.T, c *Case) *Trace {
	tr := newWorldTrace()
	before := raceLogSize()
	w := &World{c: c, net: NewNet(), tr: tr, quit: make(chan struct{}), yieldOcc: map[string]int{}}
	w.free = true
	w.installYields()
	defer grpctunnel.VerifSetYieldHook(nil)
	w.setPhase("setup")
	if !w.setupFree() {
		w.teardownFree()
		return w.copyTrace()
	}
	w.setPhase("run")
	chanFor := func(via string) grpctunnel.ReverseClientConnInterface {
		if via == "all" || via == "" {
			return w.handler.AsChannel()
		}
		k := strings.TrimPrefix(via, "key:")
		if k == "<nil>" {
			return w.handler.KeyAsChannel(nil)
		}
		return w.handler.KeyAsChannel(keyVal(k))
	}
	obs := make([]*RegObs, len(c.Reg))
	for i, op := range c.Reg {
		obs[i] = &RegObs{Op: i, Kind: op.Kind, Returned: -1, RetOp: -1, Code: CodeNil, Instance: -1, Tunnel: -1}
	}
	waitCtx, cancelWaits := context.WithCancel(context.Background())
	defer cancelWaits()
	var waitWG sync.WaitGroup
	var mu sync.Mutex // guards obs fields written by worker goroutines
	routed := func(i int, via string, o *RegObs) {
		w.mu.Lock()
		idx := len(w.rpcs)
		r := &rpcState{idx: idx, spec: &RPC{Shape: "unary", Req: []int{3}, Resp: []int{5}, Role: "routed"}}
		w.rpcs = append(w.rpcs, r)
		w.mu.Unlock()
		rec := &OpRec{Seq: -1, Actor: fmt.Sprintf("reg%d", i), RPC: idx, Side: "caller", Kind: "invoke", Code: CodeNil, End: -1}
		cc := chanFor(via)
		ctx, opts := w.callCtx(r)
		resp := msgOf(nil)
		w.appCall(rec, func() {
			setErr(rec, cc.Invoke(ctx, shapeMethod("unary"), msgOf(payload(idx, 'q', 0, 3)), resp, opts...))
		})
		r.cancel()
		mu.Lock()
		o.Code, o.Err = rec.Code, rec.Err
		o.Returned = 1
		w.mu.Lock()
		if r.inv != nil {
			o.Instance = r.inv.Instance
		}
		w.mu.Unlock()
		mu.Unlock()
	}
	byG := map[int][]int{}
	for i, op := range c.Reg {
		byG[op.G] = append(byG[op.G], i)
	}
	var wg sync.WaitGroup
	start := make(chan struct{})
	for _, idxs := range byG {
		idxs := idxs
		wg.Add(1)
		go func() {
			defer wg.Done()
			<-start
			for _, i := range idxs {
				op, o := c.Reg[i], obs[i]
				switch op.Kind {
				case "open":
					w.openTunnel(TunnelSpec{Key: op.Key, Server: -1}, false) // Server -1: a reverse-tunnel server of its own
					mu.Lock()
					o.Returned = 1
					mu.Unlock()
				case "wait":
					cc := chanFor(op.Via)
					waitWG.Add(1)
					go func() {
						defer waitWG.Done()
						err := stressRegWaiter(cc, waitCtx)
						mu.Lock()
						o.Returned = 1
						setRegErr(o, err)
						mu.Unlock()
					}()
				case "ready":
					b := chanFor(op.Via).Ready()
					mu.Lock()
					o.Bool, o.Returned = b, 1
					mu.Unlock()
				case "rpc":
					routed(i, op.Via, o)
				case "all":
					var all []int
					for _, ch := range w.handler.AllReverseTunnels() {
						all = append(all, tunnelIndexOf(ch))
					}
					sort.Ints(all)
					mu.Lock()
					o.All, o.Returned = all, 1
					mu.Unlock()
				}
			}
		}()
	}
	close(start)
	done := make(chan struct{})
	go func() { wg.Wait(); close(done) }()
	select {
	case <-done:
	case <-time.After(30 * time.Second):
		buf := make([]byte, 1<<20)
		n := runtime.Stack(buf, true)
		tr.Aborted = "registry stress run did not finish within 30s"
		tr.Notes = append(tr.Notes, string(buf[:n]))
	}
	res := &StressRegResult{}
	tr.StressReg = res
	if tr.Aborted == "" {
		// which keys have an open tunnel now (the set only grew)
		w.mu.Lock()
		for _, ts := range w.tunnels {
			if ts.ch != nil {
				k := "<nil>"
				if c.Cfg.HasKeyFn && ts.spec.Key != "" {
					k = ts.spec.Key
				}
				res.Open = append(res.Open, StressRegTunnel{Idx: ts.idx, Server: ts.server.idx, Key: k})
			}
		}
		w.mu.Unlock()
		// final views
		vias := map[string]bool{"all": true, "key:<nil>": true}
		for _, op := range c.Reg {
			if op.Via != "" {
				vias[op.Via] = true
			}
			if op.Kind == "open" {
				if c.Cfg.HasKeyFn && op.Key != "" {
					vias["key:"+op.Key] = true
				}
			}
		}
		var vs []string
		for v := range vias {
			vs = append(vs, v)
		}
		sort.Strings(vs)
		for _, v := range vs {
			fv := StressRegView{Via: v, Ready: chanFor(v).Ready(), Instance: -1, Code: CodeNil}
			o := &RegObs{Instance: -1, Code: CodeNil}
			routed(len(c.Reg), v, o)
			fv.Code, fv.Err, fv.Instance = o.Code, o.Err, o.Instance
			res.Final = append(res.Final, fv)
		}
		for _, ch := range w.handler.AllReverseTunnels() {
			res.All = append(res.All, tunnelIndexOf(ch))
		}
		sort.Ints(res.All)
		// stable phase: the set of tunnels no longer changes; RPCs issued through the pooled channel from several goroutines
		// at once. Whatever the interleaving of the picks, q*n consecutive picks over n tunnels use every tunnel q times.
		if n := len(res.All); n >= 2 && n == len(res.Open) && c.StableRounds > 0 {
			st := &StressRegStable{Via: "all", Tunnels: n, Rounds: c.StableRounds, Counts: map[int]int{}}
			total := int64(n * c.StableRounds)
			var next atomic.Int64
			var swg sync.WaitGroup
			var smu sync.Mutex
			for g := 0; g < 8; g++ {
				swg.Add(1)
				go func() {
					defer swg.Done()
					for next.Add(1) <= total {
						o := &RegObs{Instance: -1, Code: CodeNil}
						routed(len(c.Reg), "all", o)
						smu.Lock()
						if o.Code != CodeNil || o.Instance < 0 {
							st.Failed++
						} else {
							st.Counts[o.Instance]++
						}
						smu.Unlock()
					}
				}()
			}
			swg.Wait()
			res.Stable = st
		}
		// pending waiters: judged by state
		deadline := time.Now().Add(5 * time.Second)
		for {
			mu.Lock()
			pending := 0
			for i, op := range c.Reg {
				if op.Kind == "wait" && obs[i].Returned < 0 {
					pending++
				}
			}
			mu.Unlock()
			if pending == 0 {
				break
			}
			states := waiterStates()
			res.WaiterStates = states
			allParked := len(states) > 0
			for _, s := range states {
				if !strings.HasPrefix(s, "select") {
					allParked = false
				}
			}
			if allParked || time.Now().After(deadline) {
				break
			}
			time.Sleep(2 * time.Millisecond)
		}
		mu.Lock()
		for i, op := range c.Reg {
			if op.Kind == "wait" && obs[i].Returned < 0 {
				res.PendingWaits = append(res.PendingWaits, StressRegWait{Op: i, Via: op.Via, Ready: chanFor(op.Via).Ready()})
			}
		}
		mu.Unlock()
	}
	cancelWaits()
	waitWG.Wait()
	mu.Lock()
	tr.Reg = append(tr.Reg, obs...)
	mu.Unlock()
	// close everything; the registry must empty at both levels
	w.setPhase("end")
	w.mu.Lock()
	w.frozen = false
	w.mu.Unlock()
	// second concurrent phase: every reverse-tunnel server is stopped from its own goroutine while other goroutines keep
	// enumerating and querying the registry (the set only shrinks now; what must hold is the empty end state, no panic, no race)
	{
		var stops, queries sync.WaitGroup
		stopQueries := make(chan struct{})
		for q := 0; q < 3; q++ {
			queries.Add(1)
			go func() {
				defer queries.Done()
				for {
					select {
					case <-stopQueries:
						return
					default:
					}
					for _, ch := range w.handler.AllReverseTunnels() {
						_ = tunnelIndexOf(ch)
					}
					_ = w.handler.AsChannel().Ready()
					_ = w.handler.KeyAsChannel("k0").Ready()
					runtime.Gosched()
				}
			}()
		}
		for _, rs := range w.allServers() {
			rs := rs
			stops.Add(1)
			go func() { defer stops.Done(); rs.rs.Stop() }()
		}
		stops.Wait()
		close(stopQueries)
		queries.Wait()
	}
	for j := 0; j < 4000; j++ {
		if len(w.handler.AllReverseTunnels()) == 0 {
			break
		}
		time.Sleep(500 * time.Microsecond)
	}
	time.Sleep(2 * time.Millisecond)
	res.AllAfterClose = len(w.handler.AllReverseTunnels())
	for _, v := range []string{"key:<nil>", "key:k0", "key:k1", "key:k2", "key:k3"} {
		if chanFor(v).Ready() {
			res.ReadyAfterClose = append(res.ReadyAfterClose, v)
		}
	}
	w.mu.Lock()
	w.frozen = true
	w.mu.Unlock()
	w.teardownFree()
	out := w.copyTrace()
	out.StressReg = res
	out.Reg = tr.Reg
	if after := raceLogSize(); after > before {
		tail := raceLogTail(before)
		if raceInvolvesLibrary(tail) {
			out.Notes = append(out.Notes, "RACE: "+tail)
		} else {
			out.Notes = append(out.Notes, "HARNESS-RACE: "+tail)
		}
	}
	return out
}

type StressRegTunnel struct {
	Idx    int    `json:"idx"`
	Server int    `json:"server"` // index of the reverse-tunnel server instance that serves it (what handlers report)
	Key    string `json:"key"`
}

type StressRegView struct {
	Via      string `json:"via"`
	Ready    bool   `json:"ready"`
	Code     int    `json:"code"`
	Err      string `json:"err,omitempty"`
	Instance int    `json:"instance"`
}

type StressRegWait struct {
	Op    int    `json:"op"`
	Via   string `json:"via"`
	Ready bool   `json:"ready"`
}

type StressRegResult struct {
	Open            []StressRegTunnel `json:"open"`
	Final           []StressRegView   `json:"final"`
	All             []int             `json:"all"`
	PendingWaits    []StressRegWait   `json:"pending_waits,omitempty"`
	WaiterStates    []string          `json:"waiter_states,omitempty"`
	AllAfterClose   int               `json:"all_after_close"`
	ReadyAfterClose []string          `json:"ready_after_close,omitempty"`
	Stable          *StressRegStable  `json:"stable,omitempty"`
}

// StressRegStable: the RPCs issued from several goroutines at once over a set of tunnels that no longer changes.
type StressRegStable struct {
	Via     string      `json:"via"`
	Tunnels int         `json:"tunnels"`
	Rounds  int         `json:"rounds"`
	Failed  int         `json:"failed,omitempty"`
	Counts  map[int]int `json:"counts"` // serving instance -> RPCs it served
}

func monStressReg(c *Case, tr *Trace) []Violation {
	var vs []Violation
	add := func(prop, class string, f string, a ...any) {
		vs = append(vs, Violation{Prop: prop, Class: class, Details: fmt.Sprintf(f, a...)})
	}
	for _, p := range tr.Panics {
		add("C12", "panic", "%s", p)
	}
	res := tr.StressReg
	if res == nil || tr.Aborted != "" {
		return vs
	}
	keyOfTunnel := map[int]string{}
	byKey := map[string][]int{}
	var allOpen []int
	var allServers []int
	for _, t := range res.Open {
		keyOfTunnel[t.Server] = t.Key
		byKey[t.Key] = append(byKey[t.Key], t.Server)
		allOpen = append(allOpen, t.Idx)
		allServers = append(allServers, t.Server)
	}
	sort.Ints(allOpen)
	// matching: the serving instances behind a selector
	matching := func(via string) []int {
		if via == "all" {
			return allServers
		}
		return byKey[strings.TrimPrefix(via, "key:")]
	}
	contains := func(xs []int, x int) bool {
		for _, y := range xs {
			if y == x {
				return true
			}
		}
		return false
	}
	// served RPCs of the concurrent phase went to a tunnel with the right key
	for _, o := range tr.Reg {
		if o == nil || o.Kind != "rpc" || o.Instance < 0 {
			continue
		}
		op := c.Reg[o.Op]
		if k, ok := keyOfTunnel[o.Instance]; ok && op.Via != "all" && "key:"+k != op.Via {
			add("C12", "rpc_routed_to_wrong_tunnel", "op %d: RPC via %s was served by tunnel %d, whose key is %q", o.Op, op.Via, o.Instance, k)
		}
		if o.Code != CodeNil {
			add("C12", "routed_rpc_failed", "op %d: RPC via %s reached tunnel %d (tunnels are only opened in this phase) but failed: code %d (%s)", o.Op, op.Via, o.Instance, o.Code, o.Err)
		}
	}
	for _, o := range tr.Reg {
		if o == nil || o.Kind != "rpc" || o.Instance >= 0 || o.Returned < 0 {
			continue
		}
		if o.Code != 14 {
			add("C12", "routed_rpc_failed", "op %d: RPC via %s did not reach a handler and failed with code %d (%s); only Unavailable (no tunnel yet) is legitimate while tunnels are only being opened", o.Op, c.Reg[o.Op].Via, o.Code, o.Err)
		}
	}
	// the final views
	if fmt.Sprint(res.All) != fmt.Sprint(allOpen) && !(len(res.All) == 0 && len(allOpen) == 0) {
		add("C12", "registry_differs_from_open_tunnels", "after the concurrent phase AllReverseTunnels() lists %v; the open tunnels are %v", res.All, allOpen)
	}
	for _, fv := range res.Final {
		m := matching(fv.Via)
		if fv.Ready != (len(m) > 0) {
			add("C12", "ready_wrong", "after the concurrent phase Ready() via %s = %v; open matching tunnels: %v", fv.Via, fv.Ready, m)
		}
		if len(m) == 0 {
			if fv.Code != 14 {
				add("C12", "rpc_without_tunnel_not_unavailable", "after the concurrent phase an RPC via %s (no matching tunnel) returned code %d (%s), instance %d", fv.Via, fv.Code, fv.Err, fv.Instance)
			}
		} else if fv.Code != CodeNil || !contains(m, fv.Instance) {
			add("C12", "open_tunnel_unreachable", "after the concurrent phase an RPC via %s returned code %d (%s) from tunnel %d; the open matching tunnels are %v", fv.Via, fv.Code, fv.Err, fv.Instance, m)
		}
	}
	// round robin over the stable set, under parallelism: any n consecutive picks use each tunnel once, so rounds*n
	// picks - in whatever order they were made - use each tunnel exactly rounds times
	if st := res.Stable; st != nil {
		if st.Failed > 0 {
			add("C12", "routed_rpc_failed", "%d of the %d RPCs issued through AsChannel() over the stable set of %d open tunnels failed or did not reach a handler", st.Failed, st.Tunnels*st.Rounds, st.Tunnels)
		} else {
			uneven := len(st.Counts) != st.Tunnels
			for _, n := range st.Counts {
				if n != st.Rounds {
					uneven = true
				}
			}
			if uneven {
				add("C12", "round_robin_uneven", "%d RPCs were issued from 8 goroutines through AsChannel() over a stable set of %d open tunnels; each tunnel must have served %d, but the tunnels served %v", st.Tunnels*st.Rounds, st.Tunnels, st.Rounds, st.Counts)
			}
		}
	}
	// waits
	for _, o := range tr.Reg {
		if o == nil || o.Kind != "wait" || o.Returned < 0 {
			continue
		}
		if o.Code == CodeNil && len(matching(c.Reg[o.Op].Via)) == 0 {
			add("C12", "wait_for_ready_returns_although_not_ready", "op %d: WaitForReady via %s returned nil although no matching tunnel ever opened", o.Op, c.Reg[o.Op].Via)
		}
	}
	for _, pw := range res.PendingWaits {
		if len(matching(pw.Via)) == 0 {
			continue // legitimately waiting
		}
		parked := len(res.WaiterStates) > 0
		for _, s := range res.WaiterStates {
			if !strings.HasPrefix(s, "select") {
				parked = false
			}
		}
		if pw.Ready && parked {
			add("C12", "wait_for_ready_not_released", "op %d: WaitForReady via %s is still parked in its select (waiter states %v) although matching tunnels %v are open and Ready() is true: the latch it holds will never be closed", pw.Op, pw.Via, res.WaiterStates, matching(pw.Via))
		} else if !pw.Ready {
			add("C12", "ready_wrong", "op %d: WaitForReady via %s still pending and Ready() false although matching tunnels %v are open", pw.Op, pw.Via, matching(pw.Via))
		}
	}
	// after closing everything
	if res.AllAfterClose != 0 {
		add("C12", "registry_lists_finished_tunnel", "AllReverseTunnels() still lists %d tunnel(s) after every reverse-tunnel server was stopped", res.AllAfterClose)
	}
	if len(res.ReadyAfterClose) > 0 {
		add("C12", "ready_wrong", "after every reverse-tunnel server was stopped Ready() is still true via %v", res.ReadyAfterClose)
	}
	for _, t := range tr.Tunnels {
		n := len(t.Callbacks)
		if n == 0 {
			continue
		}
		if n != 2 || !strings.HasPrefix(t.Callbacks[0], "open@") || !strings.HasPrefix(t.Callbacks[1], "close@") {
			add("C12", "callbacks_wrong", "tunnel %d produced callbacks %v; want exactly one open followed by one close", t.Idx, t.Callbacks)
		}
	}
	for _, n := range tr.Notes {
		if strings.HasPrefix(n, "RACE: ") {
			add("C15", "data_race", "the race detector reported while this program ran:\n%s", n)
		}
	}
	return vs
}

// ntStressReg: at least two goroutines, and some key was both opened and waited for / routed through.
func ntStressReg(c *Case, tr *Trace) bool {
	gs := map[int]bool{}
	opened, used := map[string]bool{}, false
	for _, op := range c.Reg {
		gs[op.G] = true
		if op.Kind == "open" {
			k := "key:<nil>"
			if c.Cfg.HasKeyFn && op.Key != "" {
				k = "key:" + op.Key
			}
			opened[k] = true
			opened["all"] = true
		}
	}
	for _, op := range c.Reg {
		if (op.Kind == "wait" || op.Kind == "rpc" || op.Kind == "ready") && opened[op.Via] {
			used = true
		}
	}
	return len(gs) >= 2 && used
}

func labelsStressReg(c *Case, tr *Trace) []string {
	ls := []string{fmt.Sprintf("keyfn=%v", c.Cfg.HasKeyFn)}
	gs := map[int]bool{}
	kinds := map[string]bool{}
	for _, op := range c.Reg {
		gs[op.G] = true
		kinds[op.Kind] = true
	}
	ls = append(ls, fmt.Sprintf("goroutines=%d", len(gs)))
	for k := range kinds {
		ls = append(ls, "op="+k)
	}
	if tr.StressReg != nil {
		ls = append(ls, fmt.Sprintf("open_tunnels=%d", len(tr.StressReg.Open)))
		if len(tr.StressReg.PendingWaits) > 0 {
			ls = append(ls, "waits_pending_at_end")
		}
		if st := tr.StressReg.Stable; st != nil {
			ls = append(ls, fmt.Sprintf("stable_parallel_rpcs>=%d", (st.Tunnels*st.Rounds)/200*200))
		}
	}
	return ls
}
