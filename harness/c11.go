package harness

import (
	"fmt"
	"strings"

	"pgregory.net/rapid"
)

// ---- part 1: configuration matrix with real endpoints on both sides

func genC11Matrix(t *rapid.T) *Case {
	c := &Case{Prop: "c11_matrix"}
	modes := []string{"on", "off", "legacy"}
	c.Cfg = Config{
		Dir:      rapid.SampledFrom([]string{"fwd", "rev"}).Draw(t, "dir"),
		ClientFC: rapid.SampledFrom(modes).Draw(t, "client_fc"),
		ServerFC: rapid.SampledFrom(modes).Draw(t, "server_fc"),
		Cap:      rapid.SampledFrom([]int{0, 0, 2}).Draw(t, "cap"),
	}
	// one RPC of every shape, plus up to two more
	for i, sh := range []string{"unary", "cstream", "sstream", "bidi"} {
		r := genBystander(t, fmt.Sprintf("s%d", i))
		r.Shape = sh
		r.Via = ""
		if !reqStreams(sh) {
			if len(r.Req) == 0 {
				r.Req = []int{5}
			}
			r.Req = r.Req[:1]
		}
		r.HOps = nil
		if !respStreams(sh) {
			if len(r.Resp) == 0 {
				r.Resp = []int{5}
			}
			r.Resp = r.Resp[:1]
		}
		if sh != "unary" {
			for j := range r.Resp {
				r.HOps = append(r.HOps, MDOp{Kind: "send", Idx: j})
			}
		}
		c.RPCs = append(c.RPCs, r)
	}
	c.Tape = genTape(t, 0, 200)
	return c
}

// wantFlowControl: flow control (revision one) exactly when both ends advertise negotiation and neither disabled it.
func wantFlowControl(cfg *Config) bool {
	return cfg.ClientFC == "on" && cfg.ServerFC == "on"
}

func monC11Matrix(c *Case, tr *Trace) []Violation {
	var vs []Violation
	add := func(class string, step int, f string, a ...any) {
		vs = append(vs, Violation{Prop: "C11", Class: class, Step: step, Details: fmt.Sprintf("client=%s server=%s dir=%s: ", c.Cfg.ClientFC, c.Cfg.ServerFC, c.Cfg.Dir) + fmt.Sprintf(f, a...)})
	}
	if tr.Aborted != "" {
		return nil
	}
	want := wantFlowControl(&c.Cfg)
	legacy := c.Cfg.ClientFC == "legacy" || c.Cfg.ServerFC == "legacy"
	for _, f := range tr.Frames {
		if f.F == nil || f.SendErr != "" {
			continue
		}
		switch f.F.Kind {
		case "window_update":
			if !want {
				add("window_update_without_negotiation", f.Step, "window_update emitted (%s) although flow control must not be in use", f.F)
			}
		case "settings":
			if legacy {
				add("settings_towards_legacy_peer", f.Step, "settings frame emitted towards a peer that did not advertise negotiation")
			}
		case "new_stream":
			wantRev := int32(0)
			if want {
				wantRev = 1
			}
			if f.F.Revision != wantRev {
				add("wrong_revision", f.Step, "new_stream carries protocol_revision %d, want %d", f.F.Revision, wantRev)
			}
		}
	}
	for _, t := range tr.Tunnels {
		if !t.Opened {
			add("tunnel_failed_to_open", 0, "tunnel %d did not open: %s", t.Idx, t.OpenErr)
		}
	}
	probe := tr.PhaseStart["probe"]
	for i := range c.RPCs {
		if msg := bystanderComplete(c, tr, i, probe); msg != "" {
			add("rpc_failed", probe, "rpc %d (%s) did not complete normally: %s", i, c.RPCs[i].Shape, msg)
		}
	}
	return vs
}

// ---- part 2: a genuine revision-zero raw client (frame-level reference peer)

func genC11LegacyClient(t *rapid.T) *Case {
	c := genRawClientWith(t, nil, 0)
	c.Prop = "c11_legacy_client"
	c.Raw.Negotiate = false
	c.Raw.AutoCredit = false
	for i := range c.Raw.Frames {
		if c.Raw.Frames[i].Kind == "new_stream" {
			// a legacy client does not know these fields
			c.Raw.Frames[i].Rev, c.Raw.Frames[i].Window = 0, 0
		}
	}
	return c
}

func monC11LegacyClient(c *Case, tr *Trace) []Violation {
	vs := monRawClient("C11")(c, tr)
	for _, f := range tr.Frames {
		if f.F == nil || f.F.ToServer || f.SendErr != "" {
			continue
		}
		if f.F.Kind == "settings" || f.F.Kind == "window_update" {
			vs = append(vs, Violation{Prop: "C11", Class: "revision_one_frame_towards_legacy_peer", Step: f.Step, Details: fmt.Sprintf("the server emitted %s towards a client that did not advertise negotiation", f.F)})
		}
	}
	return vs
}

// ---- part 3: raw server presenting generated settings

func genC11Settings(t *rapid.T) *Case {
	s := &RawSettings{ID: -1, Window: rapid.SampledFrom([]uint32{0, 1, 100, 65536, 65536, 1<<32 - 1}).Draw(t, "window")}
	n := rapid.IntRange(0, 4).Draw(t, "nrevs")
	for i := 0; i < n; i++ {
		s.Revisions = append(s.Revisions, rapid.SampledFrom([]int32{0, 1, 0, 1, 2, 7, -1}).Draw(t, fmt.Sprintf("rev%d", i)))
	}
	switch rapid.IntRange(0, 9).Draw(t, "malformed") {
	case 0:
		s.ID = rapid.SampledFrom([]int64{0, 1, 3, -2}).Draw(t, "bad_id")
	case 1:
		s.WrongKind = rapid.SampledFrom([]string{"window_update", "headers", "close", "msg", "nil"}).Draw(t, "wrong_kind")
	case 2:
		s.EndFirst = true
	}
	c := genRawServerWith(t, nil, 0, s)
	c.Prop = "c11_settings"
	if rev, ok := negotiated(c); ok && rev == 1 && s.Window == 0 {
		// revision one with a zero window can never carry request data: not a negotiation question
		s.Window = 1
	}
	if c.Raw.Settings.Window < 1000 {
		for i := range c.RPCs {
			for j := range c.RPCs[i].Req {
				if c.RPCs[i].Req[j] > 300 {
					c.RPCs[i].Req[j] = 300
				}
			}
		}
	}
	return c
}

// negotiated: the model of the settings exchange. ok=false: the tunnel must fail.
func negotiated(c *Case) (rev int32, ok bool) {
	s := c.Raw.Settings
	if !c.Raw.Negotiate {
		return 0, true
	}
	if s.EndFirst || s.WrongKind != "" || s.ID != -1 || s.Omit {
		return 0, false
	}
	supported := map[int32]bool{0: true, 1: c.Cfg.ClientFC != "off"}
	revs := s.Revisions
	if len(revs) == 0 {
		revs = []int32{0} // a settings message listing no revisions means revision zero
	}
	best, found := int32(-1), false
	for _, r := range revs {
		if supported[r] && r > best {
			best, found = r, true
		}
	}
	return best, found
}

func monC11Settings(c *Case, tr *Trace) []Violation {
	var vs []Violation
	s := c.Raw.Settings
	add := func(class string, step int, f string, a ...any) {
		vs = append(vs, Violation{Prop: "C11", Class: class, Step: step, Details: fmt.Sprintf("settings{id=%d revisions=%v window=%d wrongkind=%q endfirst=%v} client_fc=%s: ", s.ID, s.Revisions, s.Window, s.WrongKind, s.EndFirst, c.Cfg.ClientFC) + fmt.Sprintf(f, a...),
			Attrs: map[string]string{"revisions_empty": fmt.Sprint(len(s.Revisions) == 0)}})
	}
	if tr.Aborted != "" {
		return nil
	}
	for _, p := range tr.Panics {
		add("panic", 0, "%s", p)
	}
	tun := tr.Tunnels[0]
	rev, ok := negotiated(c)
	est := tr.PhaseStart["run"]
	if !ok {
		// the tunnel must fail with an error instead of hanging or silently proceeding: by the drained point after Start
		switch {
		case tr.Labels["start_blocked"] > 0:
			add("start_hangs_on_bad_settings", est, "Start had not returned at the drained point")
		case tun.Opened && (tun.DoneStep < 0 || tun.DoneStep > est):
			add("bad_settings_accepted", est, "Start returned a live channel (done at step %d)", tun.DoneStep)
		case tun.Opened && tun.ChanErrNil:
			add("bad_settings_reported_clean", tun.DoneStep, "the channel is done but Err() is nil")
		}
		for _, f := range tr.Frames {
			if f.F != nil && f.F.ToServer && f.F.Kind == "new_stream" && f.SendErr == "" {
				add("rpc_sent_despite_bad_settings", f.Step, "a new_stream frame was emitted although the settings exchange must fail")
				break
			}
		}
		return vs
	}
	if !tun.Opened {
		add("good_settings_rejected", est, "the settings are acceptable (revision %d) but Start failed: %s", rev, tun.OpenErr)
		return vs
	}
	if tun.DoneStep >= 0 && tun.DoneStep < tr.PhaseStart["end"] {
		add("good_settings_rejected", tun.DoneStep, "the settings are acceptable (revision %d) but the channel ended at step %d with %q", rev, tun.DoneStep, tun.ChanErr)
		return vs
	}
	for _, f := range tr.Frames {
		if f.F == nil || !f.F.ToServer || f.SendErr != "" {
			continue
		}
		if f.F.Kind == "new_stream" && f.F.Revision != rev {
			add("wrong_revision", f.Step, "new_stream carries protocol_revision %d; the highest common revision is %d", f.F.Revision, rev)
		}
		if f.F.Kind == "window_update" && rev == 0 {
			add("window_update_in_revision_zero", f.Step, "the client emitted %s although revision zero was negotiated", f.F)
		}
	}
	// the settings exchange is *used*: under revision one the window announced in the settings message (any value,
	// not only the stock 64 KiB) is what bounds the caller's un-credited request bytes on every stream
	if rev == 1 {
		for _, v := range monC06Sender(c, tr) {
			if v.Class == "window_exceeded_by_sender" && strings.Contains(v.Details, "toServer=true") {
				add("announced_window_not_used", v.Step, "%s", v.Details)
				break
			}
		}
	}
	// with acceptable settings every RPC works (judged by the raw-server oracle)
	vs = append(vs, monRawServer("C11")(c, tr)...)
	return vs
}

func ntC11Settings(c *Case, tr *Trace) bool {
	s := c.Raw.Settings
	return len(s.Revisions) != 2 || s.Revisions[0] != 0 || s.Revisions[1] != 1 || s.ID != -1 || s.WrongKind != "" || s.EndFirst
}

func labelsC11(c *Case, tr *Trace) []string {
	ls := []string{"client_fc=" + c.Cfg.ClientFC, "server_fc=" + c.Cfg.ServerFC, "dir=" + c.Cfg.Dir}
	if c.Raw != nil && c.Raw.Settings != nil && c.Raw.Role == "server" {
		s := c.Raw.Settings
		rev, ok := negotiated(c)
		ls = append(ls, fmt.Sprintf("negotiable=%v/rev%d", ok, rev), fmt.Sprintf("nrevs=%d", len(s.Revisions)))
		if s.ID != -1 {
			ls = append(ls, "bad_id")
		}
		if s.WrongKind != "" {
			ls = append(ls, "wrong_kind="+s.WrongKind)
		}
		if s.EndFirst {
			ls = append(ls, "end_first")
		}
	}
	for l := range tr.Labels {
		ls = append(ls, l)
	}
	return ls
}
