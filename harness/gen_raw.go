package harness

import (
	"math"
	"fmt"

	"pgregory.net/rapid"
)

// convStream is one logical RPC of a raw-client conversation.
type convStream struct {
	tag    int
	id     int64
	frames []RawFrame
	dirty  bool
	code   int
	why    string
}

func chunkFrames(id int64, tag, msgIdx, total int, first string) []RawFrame {
	var out []RawFrame
	off := 0
	for {
		n := total - off
		if n > 16384 {
			n = 16384
		}
		f := RawFrame{ID: id, Tag: tag, Msg: msgIdx, Off: off, DataLen: n}
		if off == 0 {
			f.Kind, f.Size = "msg", uint32(total)
		} else {
			f.Kind = "more"
		}
		out = append(out, f)
		off += n
		if off >= total {
			break
		}
	}
	return out
}

var rawReqSizes = []int{0, 5, 300, 16381, 16382, 20000, 40000}

// genRawRPC draws the handler-side script of one logical RPC of a raw conversation.
func genRawRPC(t *rapid.T, label string, shape string) RPC {
	r := RPC{Shape: shape, HWaitRecv: true, Role: "raw"}
	sz := func(l string, min, max int, pool []int) []int {
		n := rapid.IntRange(min, max).Draw(t, l+".n")
		out := make([]int, n)
		for i := range out {
			out[i] = rapid.SampledFrom(pool).Draw(t, fmt.Sprintf("%s[%d]", l, i))
		}
		return out
	}
	if reqStreams(shape) {
		r.Req = sz(label+".req", 0, 3, rawReqSizes)
		total := 0
		for i, s := range r.Req {
			total += wireSize(s)
			if total > 60000 { // a static script cannot wait for credit: stay within one window
				r.Req = r.Req[:i]
				break
			}
		}
	} else {
		r.Req = sz(label+".req", 1, 1, rawReqSizes)
	}
	if respStreams(shape) {
		r.Resp = sz(label+".resp", 0, 3, []int{0, 5, 300, 16381, 20000, 70000, 150000})
	} else {
		r.Resp = sz(label+".resp", 1, 1, []int{0, 5, 300, 20000, 70000})
	}
	if shape != "unary" {
		for i := range r.Resp {
			r.HOps = append(r.HOps, MDOp{Kind: "send", Idx: i})
		}
	}
	if rapid.IntRange(0, 5).Draw(t, label+".err") == 0 {
		r.Code, r.Msg = rapid.IntRange(1, 16).Draw(t, label+".code"), "scripted"
		if !respStreams(shape) {
			r.Resp, r.HOps = nil, nil
		}
	}
	return r
}

func conformingFrames(st *convStream, r *RPC, rev int32, window uint32) {
	st.frames = []RawFrame{{ID: st.id, Tag: st.tag, Kind: "new_stream", Method: shapeMethod(r.Shape), Rev: rev, Window: window}}
	for i, s := range r.Req {
		st.frames = append(st.frames, chunkFrames(st.id, st.tag, i, wireSize(s), "msg")...)
	}
	st.frames = append(st.frames, RawFrame{ID: st.id, Tag: st.tag, Kind: "half_close"})
}

var rawClientDeviations = []string{
	"id_reuse", "id_backwards", "frame_unknown_id", "negative_id_later",
	"more_to_msg", "msg_to_more", "nil_frame", "size_too_small", "size_too_big", "oversize_chunk",
	"window_overrun", "empty_method", "no_slash_method", "unknown_method", "rev2", "rev_negative",
	"window_update_zero", "window_update_huge", "dup_frame", "drop_frame", "swap_frames",
	"frames_after_cancel", "data_after_half_close", "cancel_mid", "unary_two_requests", "unary_no_request",
	"half_close_twice", "new_stream_no_md", "size_huge", "id_max", "timeout_key_no_values",
}

// hugeDeclared: the smallest message size a "size_huge" envelope announces; allocBound is what a
// run may allocate in total before the monitor says the announced size (not the data) was buffered.
const (
	hugeDeclared = 1 << 30
	allocBound   = 512 << 20
)

// applyDeviation mutates the conversation; it returns the name of a tunnel-level violation it introduced ("" if none).
func applyDeviation(t *rapid.T, label, kind string, streams []*convStream, rpcs []RPC, nextID *int64) string {
	st := streams[rapid.IntRange(0, len(streams)-1).Draw(t, label+".stream")]
	r := &rpcs[st.tag]
	mark := func(code int, why string) {
		if st.dirty {
			st.code = 0 // several deviations on one RPC: only the crash/hang/leak clauses remain
		} else {
			st.code = code
		}
		st.dirty = true
		st.why += kind + " "
		_ = why
	}
	pos := func(l string, lo, hi int) int {
		if hi < lo {
			hi = lo
		}
		return rapid.IntRange(lo, hi).Draw(t, label+"."+l)
	}
	dataIdx := func() []int {
		var ix []int
		for i, f := range st.frames {
			if f.Kind == "msg" || f.Kind == "more" {
				ix = append(ix, i)
			}
		}
		return ix
	}
	insert := func(at int, f RawFrame) {
		if at > len(st.frames) {
			at = len(st.frames)
		}
		st.frames = append(st.frames[:at], append([]RawFrame{f}, st.frames[at:]...)...)
	}
	switch kind {
	case "id_reuse":
		// a second new_stream with this stream's id, after the first
		insert(pos("at", 1, len(st.frames)), RawFrame{ID: st.id, Tag: -1, Kind: "new_stream", Method: shapeMethod("unary"), Rev: 1, Window: 65536})
		mark(0, "")
		return "id_reuse"
	case "id_backwards":
		if st.id <= 1 {
			return ""
		}
		insert(pos("at", 1, len(st.frames)), RawFrame{ID: st.id - 1 - int64(pos("back", 0, 2)), Tag: -1, Kind: "new_stream", Method: shapeMethod("unary"), Rev: 1, Window: 65536})
		return "id_backwards"
	case "negative_id_later":
		insert(pos("at", 1, len(st.frames)), RawFrame{ID: -int64(pos("neg", 1, 9)), Tag: -1, Kind: "new_stream", Method: shapeMethod("unary"), Rev: 1, Window: 65536})
		return "negative_id_later"
	case "frame_unknown_id":
		k := rapid.SampledFrom([]string{"msg", "more", "half_close", "cancel", "window_update", "nil"}).Draw(t, label+".fkind")
		insert(pos("at", 0, len(st.frames)), RawFrame{ID: 1<<40 + int64(pos("id", 0, 5)), Tag: -1, Kind: k, Size: 3, DataLen: 3, Zeros: true})
		return "frame_unknown_id"
	case "more_to_msg":
		for _, i := range dataIdx() {
			if st.frames[i].Kind == "more" {
				st.frames[i].Kind, st.frames[i].Size = "msg", uint32(st.frames[i].DataLen)
				mark(3, "")
				return ""
			}
		}
	case "msg_to_more":
		for _, i := range dataIdx() {
			if st.frames[i].Kind == "msg" {
				st.frames[i].Kind = "more"
				mark(3, "")
				return ""
			}
		}
	case "nil_frame":
		insert(pos("at", 1, len(st.frames)), RawFrame{ID: st.id, Tag: st.tag, Kind: "nil"})
		mark(0, "")
	case "size_too_small":
		for _, i := range dataIdx() {
			if st.frames[i].Kind == "msg" && st.frames[i].DataLen > 0 {
				st.frames[i].Size = uint32(st.frames[i].DataLen - 1)
				mark(3, "")
				return ""
			}
		}
	case "size_too_big":
		for _, i := range dataIdx() {
			if st.frames[i].Kind == "msg" {
				st.frames[i].Size += uint32(pos("extra", 1, 5000))
				mark(0, "")
				return ""
			}
		}
	case "id_max":
		// a stream with the largest id there is (legal: greater than all before), then another new_stream - reused, lower or
		// negative - which can only be "not greater than all seen"
		mx := int64(math.MaxInt64)
		tagA := len(rpcs)
		_ = tagA
		stA := &convStream{tag: st.tag, id: mx}
		stA.frames = []RawFrame{{ID: mx, Tag: -1, Kind: "new_stream", Method: "/verif.Svc/Unary", Rev: st.frames[0].Rev, Window: st.frames[0].Window},
			{ID: mx, Tag: -1, Kind: "msg", Size: 5, DataLen: 5, Zeros: true}, {ID: mx, Tag: -1, Kind: "half_close"}}
		next := rapid.SampledFrom([]int64{mx, 5, 0, -3, math.MinInt64}).Draw(t, label+".after_max")
		stA.frames = append(stA.frames, RawFrame{ID: next, Tag: -1, Kind: "new_stream", Method: "/verif.Svc/Unary", Rev: st.frames[0].Rev, Window: st.frames[0].Window})
		st.frames = append(st.frames, stA.frames...)
		mark(0, "")
		*nextID = mx
		return "id_not_greater_after_max"
	case "timeout_key_no_values":
		// the grpc-timeout key is present in the request headers with an empty value list
		st.frames[0].MD = map[string][]string{"grpc-timeout": {}}
		// (no deadline results: the conversation stays conforming)
		return ""
	case "size_huge":
		// an envelope announcing gigabytes, followed by the little data the script really has
		for _, i := range dataIdx() {
			if st.frames[i].Kind == "msg" {
				st.frames[i].Size = uint32(rapid.SampledFrom([]int{hugeDeclared, 2 * hugeDeclared, 3 * hugeDeclared}).Draw(t, label+".size"))
				mark(0, "")
				return ""
			}
		}
	case "oversize_chunk":
		// one frame with more than 16 KiB of data (but within the window): the documentation only says "should not"
		at := pos("at", 1, len(st.frames)-1)
		n := pos("n", 16385, 40000)
		insert(at, RawFrame{ID: st.id, Tag: st.tag, Kind: "msg", Size: uint32(n), DataLen: n, Zeros: true})
		mark(0, "")
	case "window_overrun":
		// un-credited data beyond the server's 64 KiB window
		// (placed before the stream's half-close / cancel: data after those is simply discarded, not buffered)
		end := len(st.frames) - 1
		for i, f := range st.frames {
			if f.Kind == "half_close" || f.Kind == "cancel" {
				end = i
				break
			}
		}
		at := pos("at", 1, end)
		for at < end && st.frames[at].Kind == "more" {
			at++ // only at a message boundary
		}
		over := pos("over", 1, 3*65536)
		total := 65536 + over
		var fs []RawFrame
		for off := 0; off < total; off += 16384 {
			n := total - off
			if n > 16384 {
				n = 16384
			}
			f := RawFrame{ID: st.id, Tag: st.tag, Kind: "more", DataLen: n, Zeros: true}
			if off == 0 {
				f.Kind, f.Size = "msg", uint32(total)
			}
			fs = append(fs, f)
		}
		st.frames = append(st.frames[:at], append(fs, st.frames[at:]...)...)
		// the stream's consumer reads nothing meanwhile, so the data really is un-credited when it arrives
		r.HStallRecv = true
		if st.frames[0].Rev == 1 {
			mark(8, "")
		} else {
			mark(0, "") // revision zero has no windows: nothing to overrun
		}
	case "empty_method":
		st.frames[0].Method = "<empty>"
		mark(3, "")
	case "no_slash_method":
		st.frames[0].Method = rapid.SampledFrom([]string{"nonsense", "/nonsense", "/"}).Draw(t, label+".method")
		mark(3, "")
	case "unknown_method":
		st.frames[0].Method = rapid.SampledFrom([]string{"/verif.Svc/Nope", "/nope.Svc/Unary"}).Draw(t, label+".method")
		mark(12, "")
	case "rev2":
		st.frames[0].Rev = int32(pos("rev", 2, 9))
		mark(14, "")
	case "rev_negative":
		st.frames[0].Rev = -int32(pos("rev", 1, 9))
		mark(14, "")
	case "window_update_zero":
		insert(pos("at", 1, len(st.frames)), RawFrame{ID: st.id, Tag: st.tag, Kind: "window_update", Size: 0})
		// harmless: the stream stays clean
	case "window_update_huge":
		n := pos("n", 1, 3)
		at := pos("at", 1, len(st.frames))
		for i := 0; i < n; i++ {
			insert(at, RawFrame{ID: st.id, Tag: st.tag, Kind: "window_update", Size: 1<<32 - 1})
		}
		mark(0, "")
	case "dup_frame":
		i := pos("at", 1, len(st.frames)-1)
		insert(i, st.frames[i])
		mark(0, "")
	case "drop_frame":
		if len(st.frames) > 2 {
			i := pos("at", 1, len(st.frames)-1)
			st.frames = append(st.frames[:i], st.frames[i+1:]...)
			mark(0, "")
		}
	case "swap_frames":
		if len(st.frames) > 3 {
			i := pos("at", 1, len(st.frames)-2)
			st.frames[i], st.frames[i+1] = st.frames[i+1], st.frames[i]
			mark(0, "")
		}
	case "frames_after_cancel":
		at := pos("at", 1, len(st.frames))
		insert(at, RawFrame{ID: st.id, Tag: st.tag, Kind: "cancel"})
		mark(0, "")
	case "cancel_mid":
		at := pos("at", 1, len(st.frames))
		st.frames = append(st.frames[:at], RawFrame{ID: st.id, Tag: st.tag, Kind: "cancel"})
		mark(0, "")
	case "data_after_half_close":
		st.frames = append(st.frames, RawFrame{ID: st.id, Tag: st.tag, Kind: "msg", Size: 5, DataLen: 5, Zeros: true})
		mark(0, "")
	case "half_close_twice":
		st.frames = append(st.frames, RawFrame{ID: st.id, Tag: st.tag, Kind: "half_close"})
		mark(0, "")
	case "unary_two_requests":
		if !reqStreams(r.Shape) && len(st.frames) >= 3 && 2*wireSize(r.Req[0]) <= 60000 {
			// a second complete request message before half-close (both within one window: otherwise it is an overrun)
			at := len(st.frames) - 1
			extra := chunkFrames(st.id, st.tag, 0, wireSize(r.Req[0]), "msg")
			st.frames = append(st.frames[:at], append(extra, st.frames[at:]...)...)
			mark(3, "")
		}
	case "unary_no_request":
		if !reqStreams(r.Shape) {
			st.frames = []RawFrame{st.frames[0], st.frames[len(st.frames)-1]}
			mark(0, "")
		}
	case "new_stream_no_md":
		st.frames[0].Tag = -1 // no request metadata at all: the handler cannot find its script
		st.frames[0].MD = nil
		mark(0, "")
	}
	return ""
}

// genRawClient: a valid interleaved conversation for 1-4 streams, 0-3 deviations, and a final conforming unary stream.
func genRawClientWith(t *rapid.T, devs []string, ndev int) *Case {
	c := &Case{Prop: "raw_client"}
	// the real tunnel server under test is the handler's OpenTunnel (forward) or ReverseTunnelServer.Serve (reverse: the raw peer
	// is then the network server, and the carrier's context outlives the serving call)
	c.Cfg = Config{Dir: rapid.SampledFrom([]string{"fwd", "fwd", "rev"}).Draw(t, "dir"), ClientFC: "on", ServerFC: rapid.SampledFrom([]string{"on", "on", "on", "off"}).Draw(t, "server_fc")}
	c.Cfg.Cap = rapid.SampledFrom([]int{0, 0, 0, 2, 8}).Draw(t, "cap")
	raw := &Raw{Role: "client", Negotiate: true, WaitSettings: true, AutoCredit: true}
	if rapid.IntRange(0, 5).Draw(t, "legacy") == 0 {
		raw.Negotiate = false // a revision-zero client
	}
	c.Raw = raw
	// a revision-zero conversation has no window updates at all
	raw.AutoCredit = raw.Negotiate && c.Cfg.ServerFC != "off"
	n := rapid.IntRange(1, 4).Draw(t, "nstreams")
	var streams []*convStream
	id := int64(rapid.IntRange(0, 3).Draw(t, "first_id"))
	for i := 0; i < n; i++ {
		shape := genShape(t, fmt.Sprintf("s%d.shape", i))
		c.RPCs = append(c.RPCs, genRawRPC(t, fmt.Sprintf("s%d", i), shape))
		st := &convStream{tag: i, id: id}
		rev, win := int32(1), rapid.SampledFrom([]uint32{65536, 65536, 65536, 1, 100, 16385, 1<<32 - 1}).Draw(t, fmt.Sprintf("s%d.window", i))
		if !raw.Negotiate || c.Cfg.ServerFC == "off" {
			rev, win = 0, 0
		} else if win < 1000 {
			// a tiny window costs one round trip per window: keep the responses small
			for j := range c.RPCs[i].Resp {
				if c.RPCs[i].Resp[j] > 300 {
					c.RPCs[i].Resp[j] = 300
				}
			}
		}
		conformingFrames(st, &c.RPCs[i], rev, win)
		streams = append(streams, st)
		id += int64(rapid.IntRange(1, 3).Draw(t, fmt.Sprintf("s%d.idstep", i)))
	}
	tunnelLevel := ""
	for d := 0; d < ndev; d++ {
		kind := rapid.SampledFrom(devs).Draw(t, fmt.Sprintf("dev%d", d))
		raw.Dev = append(raw.Dev, kind)
		if tl := applyDeviation(t, fmt.Sprintf("dev%d", d), kind, streams, c.RPCs, &id); tl != "" && tunnelLevel == "" {
			tunnelLevel = tl
		}
	}
	// interleave, preserving per-stream order and new_stream id order
	idx := make([]int, len(streams))
	started := 0
	for {
		var cand []int
		for si, st := range streams {
			if idx[si] >= len(st.frames) {
				continue
			}
			if idx[si] == 0 && si != started {
				continue // streams are opened in id order
			}
			cand = append(cand, si)
		}
		if len(cand) == 0 {
			break
		}
		si := cand[rapid.IntRange(0, len(cand)-1).Draw(t, "interleave")]
		raw.Frames = append(raw.Frames, streams[si].frames[idx[si]])
		if idx[si] == 0 {
			started++
		}
		idx[si]++
	}
	// the closing conforming unary stream: the tunnel must still serve it unless a tunnel-level violation came first
	tag := len(c.RPCs)
	c.RPCs = append(c.RPCs, RPC{Shape: "unary", Req: []int{3}, Resp: []int{5}, HWaitRecv: true, Role: "raw_probe"})
	last := &convStream{tag: tag, id: id + 5}
	rev, win := int32(1), uint32(65536)
	if !raw.Negotiate || c.Cfg.ServerFC == "off" {
		rev, win = 0, 0
	}
	conformingFrames(last, &c.RPCs[tag], rev, win)
	raw.Frames = append(raw.Frames, last.frames...)
	streams = append(streams, last)
	for _, st := range streams {
		raw.Expect = append(raw.Expect, RawExpect{Tag: st.tag, Clean: !st.dirty, Code: st.code, Why: st.why})
	}
	raw.TunnelLevel = tunnelLevel
	c.Tape = genTape(t, 0, 200)
	return c
}

func genRawClient(t *rapid.T) *Case {
	nd := rapid.SampledFrom([]int{0, 1, 1, 1, 2, 3}).Draw(t, "ndev")
	return genRawClientWith(t, rawClientDeviations, nd)
}

// focused raw-client generators for the sibling properties
func genRawOverrun(t *rapid.T) *Case { // C06: receiver-side enforcement
	c := genRawClientWith(t, []string{"window_overrun", "window_overrun", "window_overrun", "window_update_zero", "dup_frame"}, rapid.IntRange(1, 2).Draw(t, "ndev"))
	c.Prop = "raw_overrun"
	return c
}

func genRawShapes(t *rapid.T) *Case { // C16: call shapes on the server end
	c := genRawClientWith(t, []string{"unary_two_requests", "unary_two_requests", "unary_no_request", "data_after_half_close", "dup_frame", "half_close_twice"}, rapid.IntRange(1, 2).Draw(t, "ndev"))
	c.Prop = "raw_shapes"
	return c
}

func genRawIDs(t *rapid.T) *Case { // C08: id histories
	c := genRawClientWith(t, []string{"id_reuse", "id_backwards", "negative_id_later", "frame_unknown_id", "frames_after_cancel", "cancel_mid", "data_after_half_close", "dup_frame", "id_max"}, rapid.IntRange(1, 3).Draw(t, "ndev"))
	c.Prop = "raw_ids"
	if c.Cfg.Dir == "fwd" && rapid.IntRange(0, 1).Draw(t, "shutdown") == 0 { // (InitiateShutdown is the forward tunnels' shutdown)
		// the server starts draining somewhere inside the conversation: refused ids count as seen and finished
		c.Events = append(c.Events, Event{Kind: "initiate_shutdown", After: rapid.IntRange(1, len(c.Raw.Frames)+2).Draw(t, "shutdown_after")})
	}
	return c
}

func genRawRevision(t *rapid.T) *Case { // C03: unsupported revision as the disturber
	c := genRawClientWith(t, []string{"rev2", "rev_negative"}, 1)
	c.Prop = "raw_revision"
	return c
}
