package harness

import (
	"fmt"
)

// tunnelLevelModel re-derives, from the frames alone, the first tunnel-level violation of a raw client script:
// a new_stream whose id is not greater than all ids seen, or any other frame for an id that was never created.
// Returns the index of that frame (-1 if none) and unknown=true when the statement is silent (negative first id).
func tunnelLevelModel(frames []RawFrame) (idx int, unknown bool) {
	lastSeen := int64(-1)
	seenAny := false
	for i, f := range frames {
		if f.Kind == "new_stream" {
			if !seenAny && f.ID < 0 {
				return i, true
			}
			if seenAny && f.ID <= lastSeen {
				return i, false
			}
			if !seenAny && f.ID <= lastSeen {
				return i, true
			}
			lastSeen, seenAny = f.ID, true
			continue
		}
		if !seenAny && f.ID < 0 {
			// a frame for a negative id before any stream was opened: the statement is silent (the server
			// files it under "ids it has finished with"; ending the tunnel would be just as defensible)
			return i, true
		}
		if !seenAny || f.ID > lastSeen {
			return i, false
		}
	}
	return -1, false
}

// monRawClient: the shared oracle for raw-client runs; prop selects which property's clauses are reported.
func monRawClient(prop string) Monitor {
	return func(c *Case, tr *Trace) []Violation {
		var vs []Violation
		raw := c.Raw
		if raw == nil || raw.Role != "client" || tr.Aborted != "" {
			return nil
		}
		// clauses shared between properties: harm to conforming RPCs / to the tunnel by a stream-level deviation is
		// also what C03, C06, C08, C11 and C16 forbid for their respective deviations
		shared := map[string]bool{"conforming_rpc_harmed": true, "stream_level_violation_killed_tunnel": true, "panic": true, "endpoint_hung_after_peer_hangup": true}
		add := func(p, class string, step int, f string, a ...any) {
			if p != prop && !(p == "C09" && shared[class] && prop != "C09") {
				return
			}
			p = prop
			vs = append(vs, Violation{Prop: p, Class: class, Step: step, Details: fmt.Sprintf("deviations %v: ", raw.Dev) + fmt.Sprintf(f, a...)})
		}
		// --- no crash
		for _, p := range tr.Panics {
			add("C09", "panic", 0, "%s", p)
		}
		tun := tr.Tunnels[0]
		tlIdx, unknown := tunnelLevelModel(raw.Frames)
		hangup := tr.PhaseStart["end"]
		// how many script frames were actually sent before the tunnel ended
		sent := 0
		for _, o := range tr.Ops {
			if o.Actor == "raw.send" && !o.Pending() {
				sent++
			}
		}
		var final, hung *Snapshot
		for _, sn := range tr.Snapshots {
			if sn.Phase == "final" {
				final = sn
			}
			if sn.Phase == "hungup" {
				hung = sn
			}
		}
		// --- no hang, everything released after the peer hung up
		if tun.ServeReturned < 0 {
			add("C09", "endpoint_hung_after_peer_hangup", hangup, "the tunnel-serving call never returned after the raw client hung up")
		}
		if hung != nil && tun.ServeReturned >= 0 {
			if hung.LibGoroutines != 0 {
				add("C09", "goroutines_left_after_hangup", hung.Step, "%d library goroutines remain after the raw client hung up and the run was drained:\n%s", hung.LibGoroutines, joinStacks(hung.Stacks))
			}
			for _, tab := range hung.ServerTables {
				add("C09", "server_left_after_hangup", hung.Step, "a tunnel server is still registered after the raw client hung up (table %v)", tab)
			}
		}
		_ = final
		for _, o := range tr.Ops {
			if o.Pending() && o.Side == "handler" {
				add("C09", "handler_never_released", o.Start, "handler op %s %s#%d never returned although the peer hung up", o.Actor, o.Kind, o.Idx)
			}
		}
		for _, inv := range tr.Invocations {
			if inv.CtxDoneStep < 0 {
				add("C09", "handler_context_never_cancelled", inv.Step, "handler of rpc %d never saw its context end", inv.RPC)
			}
		}
		if tr.Deadlock != "" {
			add("C09", "goroutines_blocked_at_exit", tr.Steps, "%s", tr.Deadlock)
		}
		// --- no bloat: memory follows the data that arrived, never the size a peer merely announced
		if tr.AllocBytes > allocBound {
			add("C09", "announced_size_buffered", tr.Steps, "the run allocated %d MiB of heap although the script carries less than 1 MiB of data (largest announced message size: %d MiB)", tr.AllocBytes>>20, maxAnnounced(raw.Frames)>>20)
		}
		// --- tunnel-level vs stream-level outcome
		endedEarly := tun.ServeReturned >= 0 && tun.ServeReturned < hangup
		switch {
		case unknown:
			// statement is silent about a negative first id
		case tlIdx >= 0 && tlIdx < sent:
			// the violating frame was sent: once processed, the tunnel must end with an error
			processed := false
			n := 0
			for _, f := range tr.Frames {
				if f.F != nil && f.F.ToServer && f.SendErr == "" && f.Stream == tun.Carrier {
					if n == tlIdxOnWire(raw, tr, tlIdx) && f.Received >= 0 {
						processed = true
					}
					n++
				}
			}
			if processed {
				if !endedEarly {
					add("C09", "tunnel_level_violation_tolerated", hangup, "frame #%d of the script (%s id %d) is a tunnel-level violation (%s) but the tunnel stayed up", tlIdx, raw.Frames[tlIdx].Kind, raw.Frames[tlIdx].ID, raw.TunnelLevel)
					add("C08", "bad_stream_id_tolerated", hangup, "frame #%d of the script (%s id %d, %s) was accepted: the tunnel stayed up", tlIdx, raw.Frames[tlIdx].Kind, raw.Frames[tlIdx].ID, raw.TunnelLevel)
				} else if tun.ServeErrNil {
					add("C09", "tunnel_level_violation_reported_clean", tun.ServeReturned, "the tunnel ended after the tunnel-level violation (%s) but the serving call returned nil", raw.TunnelLevel)
					add("C08", "bad_stream_id_reported_clean", tun.ServeReturned, "the tunnel ended after %s but the serving call returned nil", raw.TunnelLevel)
				}
			}
		default:
			// only stream-level deviations: the tunnel must stay up until the hang-up and then end cleanly
			if endedEarly {
				add("C09", "stream_level_violation_killed_tunnel", tun.ServeReturned, "only stream-level deviations, yet the tunnel ended at step %d with %q", tun.ServeReturned, tun.ServeErr)
				add("C08", "late_frame_killed_tunnel", tun.ServeReturned, "frames for finished or live ids only, yet the tunnel ended at step %d with %q", tun.ServeReturned, tun.ServeErr)
			} else if tun.ServeReturned >= 0 && !tun.ServeErrNil {
				add("C09", "clean_hangup_reported_error", tun.ServeReturned, "the raw client hung up cleanly but the serving call returned %q", tun.ServeErr)
			}
		}
		if (tlIdx >= 0 && !unknown) || unknown || endedEarly {
			return vs
		}
		// --- per-RPC outcomes (no tunnel-level violation in the script)
		ix := buildWireIndex(tr)
		probe := tr.PhaseStart["probe"]
		if probe == 0 {
			probe = hangup
		}
		// a graceful shutdown initiated during the conversation: streams whose new_stream is processed
		// afterwards are refused (once, with Unavailable, no handler) and their ids are finished with
		shutdownAt := -1
		for i, ev := range c.Events {
			if ev.Kind == "initiate_shutdown" && i < len(tr.Events) && tr.Events[i].Fired >= 0 {
				shutdownAt = tr.Events[i].Fired
			}
		}
		for _, ex := range raw.Expect {
			k, onWire := ix.keyOf[ex.Tag]
			closeCode, closes := int32(-1), 0
			nsRecv := -1
			if onWire {
				for _, f := range ix.byStream[k] {
					if f.F.Kind == "close" && f.SendErr == "" {
						closes++
						closeCode = f.F.Code
					}
					if f.F.Kind == "new_stream" && f.SendErr == "" && nsRecv < 0 {
						nsRecv = f.Received
					}
				}
			}
			sp := &c.RPCs[ex.Tag]
			if shutdownAt >= 0 && onWire && nsRecv >= shutdownAt {
				if nsRecv == shutdownAt {
					continue // processed in the very step of the shutdown call: either way
				}
				invoked := 0
				for _, inv := range tr.Invocations {
					if inv.RPC == ex.Tag {
						invoked++
					}
				}
				if closes != 1 || closeCode != 14 || invoked != 0 {
					add("C08", "refused_stream_not_rejected_once", hangup, "rpc %d (new_stream processed at step %d, after InitiateShutdown at step %d) got %d close frame(s) (last code %d) and %d handler invocation(s); want exactly one rejection with Unavailable", ex.Tag, nsRecv, shutdownAt, closes, closeCode, invoked)
				}
				continue
			}
			if ex.Clean {
				if !onWire {
					continue
				}
				// handler got every request intact and end-of-stream; the close frame carries the scripted code
				got, eof := 0, false
				for _, o := range tr.Ops {
					if o.RPC != ex.Tag || o.Side != "handler" || o.Kind != "recv" || o.Pending() {
						continue
					}
					if o.Code == CodeNil && o.Payload != nil && o.Payload.OK {
						got++
					} else if o.Code == CodeEOF {
						eof = true
					} else if !o.Abandoned {
						add("C09", "conforming_rpc_harmed", o.End, "rpc %d (%s) conforms but its handler's Recv returned %s", ex.Tag, sp.Shape, o)
					}
				}
				if got != len(sp.Req) || (!eof && reqStreams(sp.Shape)) {
					add("C09", "conforming_rpc_harmed", hangup, "rpc %d (%s) conforms but its handler received %d of %d requests (eof=%v)", ex.Tag, sp.Shape, got, len(sp.Req), eof)
				}
				if closes != 1 || int(closeCode) != sp.Code {
					add("C09", "conforming_rpc_harmed", hangup, "rpc %d (%s) conforms but got %d close frames, last code %d (scripted %d)", ex.Tag, sp.Shape, closes, closeCode, sp.Code)
				}
				// responses on the wire add up to the scripted sizes
				if sp.Code == 0 {
					want := 0
					for _, s := range sp.Resp {
						want += wireSize(s)
					}
					gotBytes := 0
					for _, f := range ix.byStream[k] {
						if !f.F.ToServer && (f.F.Kind == "msg" || f.F.Kind == "more") && f.SendErr == "" {
							gotBytes += f.F.DataLen
						}
					}
					if gotBytes != want {
						add("C09", "conforming_rpc_harmed", hangup, "rpc %d (%s) conforms but %d response bytes were emitted, scripted %d", ex.Tag, sp.Shape, gotBytes, want)
					}
				}
				continue
			}
			// dirty RPC: the named code where a property names one
			if closes > 1 {
				add("C09", "close_repeated", hangup, "rpc %d got %d close frames", ex.Tag, closes)
			}
			if ex.Code != 0 && onWire {
				p := "C09"
				switch ex.Code {
				case 8:
					p = "C06"
				case 3:
					if !reqStreams(sp.Shape) && containsStr(raw.Dev, "unary_two_requests") {
						p = "C16"
					}
				}
				if closes == 0 {
					add(p, "violating_rpc_not_failed", hangup, "rpc %d (%s, %s) got no close frame; want status code %d", ex.Tag, sp.Shape, ex.Why, ex.Code)
				} else if int(closeCode) != ex.Code {
					add(p, "violating_rpc_wrong_status", hangup, "rpc %d (%s, %s) was closed with code %d; want %d", ex.Tag, sp.Shape, ex.Why, closeCode, ex.Code)
				}
			}
			// C16: a handler with a non-streaming request never observes a second request
			if !reqStreams(sp.Shape) {
				n := 0
				for _, o := range tr.Ops {
					if o.RPC == ex.Tag && o.Side == "handler" && o.Kind == "recv" && !o.Pending() && o.Code == CodeNil {
						n++
					}
				}
				if n > 1 {
					add("C16", "handler_saw_second_request", hangup, "rpc %d (%s): the handler obtained %d request messages", ex.Tag, sp.Shape, n)
				}
			}
		}
		return vs
	}
}

// tlIdxOnWire maps a script index to the index among client frames on the wire (auto-credit frames are interleaved).
func tlIdxOnWire(raw *Raw, tr *Trace, scriptIdx int) int {
	// the script frames appear on the wire in order; window_update frames sent by auto-credit are extra
	n, si := 0, 0
	for _, f := range tr.Frames {
		if f.F == nil || !f.F.ToServer || f.SendErr != "" {
			continue
		}
		if si < len(raw.Frames) && f.F.Kind == wireKind(raw.Frames[si]) && f.F.ID == raw.Frames[si].ID {
			if si == scriptIdx {
				return n
			}
			si++
		}
		n++
	}
	return -1
}

func wireKind(f RawFrame) string { return f.Kind }

func maxAnnounced(fs []RawFrame) uint64 {
	var m uint64
	for _, f := range fs {
		if f.Kind == "msg" && uint64(f.Size) > m {
			m = uint64(f.Size)
		}
	}
	return m
}

func containsStr(ss []string, s string) bool {
	for _, x := range ss {
		if x == s {
			return true
		}
	}
	return false
}

func joinStacks(ss []string) string {
	out := ""
	for i, s := range ss {
		if i > 0 {
			out += "\n---\n"
		}
		out += s
	}
	return out
}

func ntRawClient(c *Case, tr *Trace) bool {
	// a deviating frame was actually processed by the endpoint while the tunnel was up
	if c.Raw == nil || len(c.Raw.Dev) == 0 {
		return false
	}
	n := 0
	for _, o := range tr.Ops {
		if o.Actor == "raw.send" && !o.Pending() && o.Code == CodeNil {
			n++
		}
	}
	return n >= len(c.Raw.Frames)/2
}

func labelsRaw(c *Case, tr *Trace) []string {
	ls := []string{fmt.Sprintf("cap=%d", c.Cfg.Cap), "server_fc=" + c.Cfg.ServerFC, "client_fc=" + c.Cfg.ClientFC}
	if c.Raw != nil {
		ls = append(ls, fmt.Sprintf("negotiate=%v", c.Raw.Negotiate), "role="+c.Raw.Role)
		for _, d := range c.Raw.Dev {
			ls = append(ls, "dev="+d)
		}
		if len(c.Raw.Dev) == 0 {
			ls = append(ls, "dev=none")
		}
		if c.Raw.TunnelLevel != "" {
			ls = append(ls, "tunnel_level="+c.Raw.TunnelLevel)
		}
	}
	if tr.Labels != nil {
		for l := range tr.Labels {
			ls = append(ls, l)
		}
	}
	switch {
	case tr.AllocBytes < 4<<20:
		ls = append(ls, "alloc<4MiB")
	case tr.AllocBytes < 16<<20:
		ls = append(ls, "alloc<16MiB")
	case tr.AllocBytes < 48<<20:
		ls = append(ls, "alloc<48MiB")
	default:
		ls = append(ls, "alloc>=48MiB")
	}
	return ls
}
