package harness

import (
	"encoding/json"
	"fmt"
	"os"
	"testing"
)

func TestDbgMon(t *testing.T) {
	p := os.Getenv("VERIF_CASE")
	if p == "" {
		t.Skip()
	}
	b, _ := os.ReadFile(p)
	var rf replayFile
	json.Unmarshal(b, &rf)
	tr := runInBubble(t, rf.Case)
	for _, e := range tr.Events {
		fmt.Printf("%+v\n", *e)
	}
	fmt.Println(tr.PhaseStart)
	for _, v := range monC13(rf.Case, tr) {
		fmt.Println(v)
	}
}

func TestDbgMon2(t *testing.T) {
	p := os.Getenv("VERIF_CASE")
	if p == "" {
		t.Skip()
	}
	b, _ := os.ReadFile(p)
	var rf replayFile
	json.Unmarshal(b, &rf)
	tr := runInBubble(t, rf.Case)
	for _, tu := range tr.Tunnels {
		fmt.Printf("%+v\n", *tu)
	}
	fmt.Println(len(rf.Case.Events), len(tr.Events))
}

func TestDbgMon3(t *testing.T) {
	p := os.Getenv("VERIF_CASE")
	if p == "" {
		t.Skip()
	}
	b, _ := os.ReadFile(p)
	var rf replayFile
	json.Unmarshal(b, &rf)
	tr := runInBubble(t, rf.Case)
	for _, sn := range tr.Snapshots {
		fmt.Printf("%d %s srv=%v cli=%v inflight=%d pend=%v\n", sn.Step, sn.Phase, sn.ServerTables, sn.ClientTables, sn.InFlight, sn.PendingOps)
	}
	for _, v := range monC14(rf.Case, tr) {
		fmt.Println(v)
	}
}
