package harness

import (
	"fmt"

	"pgregory.net/rapid"
)

// smallFcxFamily enumerates the small configurations that are explored exhaustively:
// window 0-3, one or two messages of 0-4 bytes, up to 3 credits of 1-3, with and without the cancel action.
func smallFcxFamily() []*FcxCase {
	var out []*FcxCase
	var msgs [][]int
	for a := 0; a <= 4; a++ {
		msgs = append(msgs, []int{a})
		for b := 0; b <= 4; b++ {
			msgs = append(msgs, []int{a, b})
		}
	}
	msgs = append(msgs, []int{1, 1, 1}, []int{2, 0, 1}, []int{0, 0, 0}, []int{1, 2, 3})
	credits := [][]uint32{{}}
	for a := uint32(1); a <= 3; a++ {
		credits = append(credits, []uint32{a})
		for b := uint32(1); b <= 3; b++ {
			credits = append(credits, []uint32{a, b})
			for c := uint32(1); c <= 3; c++ {
				credits = append(credits, []uint32{a, b, c})
			}
		}
	}
	for w := uint32(0); w <= 4; w++ {
		for _, m := range msgs {
			for _, cr := range credits {
				for _, cancel := range []bool{false, true} {
					if cancel && len(cr) > 2 {
						continue // keep the schedule tree affordable
					}
					out = append(out, &FcxCase{Kind: "sender", Window: w, Msgs: m, Credits: cr, Cancel: cancel, Exhaust: true, MaxRuns: 400000})
				}
			}
		}
	}
	return out
}

func enumFcxSmall(shard, shards int, tier string) []*Case {
	var out []*Case
	for i, f := range smallFcxFamily() {
		if tier == "quick" && (len(f.Credits) > 2 || len(f.Msgs) > 2 || i%4 != 0) {
			continue // quick tier: a quarter of the smaller configurations
		}
		if i%shards != shard {
			continue
		}
		out = append(out, &Case{Prop: "fcx_small", Fcx: f})
	}
	return out
}

// genFcxSampled: larger configurations (windows around 16384 and 65536, multi-chunk messages), one sampled schedule each.
func genFcxSampled(t *rapid.T) *Case {
	f := &FcxCase{Kind: "sender"}
	f.Window = rapid.SampledFrom([]uint32{0, 1, 5, 16383, 16384, 16385, 32768, 65535, 65536, 65537}).Draw(t, "window")
	n := rapid.IntRange(1, 4).Draw(t, "nmsgs")
	total := 0
	for i := 0; i < n; i++ {
		s := rapid.SampledFrom([]int{0, 1, 7, 16383, 16384, 16385, 32769, 65535, 65536, 65537, 100000}).Draw(t, fmt.Sprintf("msg%d", i))
		f.Msgs = append(f.Msgs, s)
		total += s
	}
	nc := rapid.IntRange(0, 8).Draw(t, "ncredits")
	for i := 0; i < nc; i++ {
		f.Credits = append(f.Credits, rapid.SampledFrom([]uint32{1, 2, 100, 16383, 16384, 16385, 65536}).Draw(t, fmt.Sprintf("credit%d", i)))
	}
	f.Cancel = rapid.IntRange(0, 3).Draw(t, "cancel") == 0
	if rapid.IntRange(0, 9).Draw(t, "fail") == 0 {
		f.FailAt = rapid.IntRange(1, 6).Draw(t, "fail_at")
	}
	f.NoFC = rapid.IntRange(0, 7).Draw(t, "nofc") == 0
	c := &Case{Prop: "fcx_sampled", Fcx: f}
	c.Tape = rapid.SliceOfN(rapid.IntRange(0, 5), 0, 200).Draw(t, "tape")
	return c
}

func genFcxReceiver(t *rapid.T) *Case {
	f := &FcxCase{Kind: rapid.SampledFrom([]string{"receiver", "receiver", "receiver", "nofc_receiver"}).Draw(t, "kind")}
	f.Window = rapid.SampledFrom([]uint32{0, 1, 100, 16384, 65536}).Draw(t, "window")
	n := rapid.IntRange(1, 30).Draw(t, "nops")
	for i := 0; i < n; i++ {
		k := rapid.SampledFrom([]string{"accept", "accept", "accept", "dequeue", "dequeue", "dequeue", "close", "cancel"}).Draw(t, fmt.Sprintf("op%d", i))
		op := FcxOp{Kind: k}
		if k == "accept" {
			op.Size = rapid.SampledFrom([]int{0, 1, 50, 100, 101, 16384, 32768, 65535, 65536, 65537}).Draw(t, fmt.Sprintf("op%d.size", i))
			if rapid.IntRange(0, 3).Draw(t, fmt.Sprintf("op%d.fit", i)) > 0 && f.Window > 0 {
				op.Size = op.Size % (int(f.Window)/2 + 1)
			}
		}
		// close/cancel mostly towards the end
		if (k == "close" || k == "cancel") && i < n/2 && rapid.IntRange(0, 2).Draw(t, fmt.Sprintf("op%d.early", i)) > 0 {
			op.Kind = "dequeue"
		}
		f.Ops = append(f.Ops, op)
	}
	return &Case{Prop: "fcx_receiver", Fcx: f}
}

func ntFcx(c *Case, tr *Trace) bool {
	if tr.Fcx == nil {
		return false
	}
	if c.Fcx.Kind != "sender" {
		return len(c.Fcx.Ops) >= 4
	}
	return tr.Fcx.Interesting > 0 || tr.Fcx.Blocked > 0
}

func labelsFcx(c *Case, tr *Trace) []string {
	ls := []string{"kind=" + c.Fcx.Kind}
	if tr.Fcx != nil {
		if tr.Fcx.Exhausted {
			ls = append(ls, "config_exhausted")
		} else if c.Fcx.Exhaust {
			ls = append(ls, "config_truncated")
		}
		if tr.Fcx.Interesting > 0 {
			ls = append(ls, "update_between_load_and_wait")
		}
		if tr.Fcx.Blocked > 0 {
			ls = append(ls, "sender_legitimately_blocked")
		}
	}
	if c.Fcx.Cancel {
		ls = append(ls, "with_cancel")
	}
	if c.Fcx.NoFC {
		ls = append(ls, "nofc_sender")
	}
	return ls
}
