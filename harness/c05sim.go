package harness

import (
	"fmt"

	"pgregory.net/rapid"
)

// genC05Sim: 1-4 streaming RPCs pushing 2-40 windows of data with generated reader pacing.
func genC05Sim(t *rapid.T) *Case {
	c := &Case{Prop: "c05_sim"}
	c.Cfg = genConfig(t, []string{"fwd", "fwd", "rev", "nested"})
	c.Cfg.ClientFC, c.Cfg.ServerFC = "on", "on"
	c.Cfg.Cap = rapid.SampledFrom([]int{0, 0, 1, 2, 8}).Draw(t, "cap")
	n := rapid.IntRange(1, 4).Draw(t, "nrpcs")
	budget := rapid.SampledFrom([]int{2, 4, 8, 8, 16, 40}).Draw(t, "windows") * 65536
	for i := 0; i < n; i++ {
		r := RPC{Shape: rapid.SampledFrom([]string{"cstream", "sstream", "bidi", "bidi"}).Draw(t, fmt.Sprintf("r%d.shape", i)), HWaitRecv: true, Role: "volume"}
		fill := func(label string) []int {
			var out []int
			total := 0
			target := budget / n
			for total < target && len(out) < 60 {
				s := rapid.SampledFrom([]int{1, 300, 16380, 16381, 20000, 65532, 65533, 70000, 131072}).Draw(t, fmt.Sprintf("%s[%d]", label, len(out)))
				out = append(out, s)
				total += s
			}
			return out
		}
		if reqStreams(r.Shape) {
			r.Req = fill(fmt.Sprintf("r%d.req", i))
		} else {
			r.Req = []int{5}
		}
		if respStreams(r.Shape) {
			r.Resp = fill(fmt.Sprintf("r%d.resp", i))
		} else {
			r.Resp = []int{5}
		}
		for j := range r.Resp {
			r.HOps = append(r.HOps, MDOp{Kind: "send", Idx: j})
		}
		switch rapid.IntRange(0, 5).Draw(t, fmt.Sprintf("r%d.pace", i)) {
		case 0:
			r.StallRecv = true
		case 1:
			r.HStallRecv = true
		case 2:
			r.StallRecv, r.HStallRecv = true, true
		}
		c.RPCs = append(c.RPCs, r)
	}
	if rapid.IntRange(0, 1).Draw(t, "yield") == 0 {
		c.Yields = append(c.Yields, Yield{Point: "receiver.dequeue.beforeCredit", Nth: rapid.IntRange(0, 20).Draw(t, "yield.nth"), Repeat: rapid.IntRange(1, 5).Draw(t, "yield.repeat"),
			Kind: rapid.SampledFrom([]string{"gosched", "park", "park"}).Draw(t, "yield.kind")})
	}
	c.Cfg.DrainEvery = rapid.SampledFrom([]int{0, 7, 13, 29}).Draw(t, "drain_every")
	c.Tape = genTape(t, 0, 500)
	return c
}

// monC05Sim: credit accounting at fully drained quiescent points.
func monC05Sim(c *Case, tr *Trace) []Violation {
	var vs []Violation
	add := func(class string, step int, f string, a ...any) {
		vs = append(vs, Violation{Prop: "C05", Class: class, Step: step, Details: fmt.Sprintf(f, a...)})
	}
	if tr.Aborted != "" || c.Raw != nil {
		return nil
	}
	ix := buildWireIndex(tr)
	// the volume must complete under any reader pacing: nothing may be pending once stalled consumers were released
	// (these workloads contain no fault, cancellation or deadline: an operation that returns only once the harness ends the
	// tunnels did not complete either)
	endStep, hasEnd := tr.PhaseStart["end"]
	for _, o := range tr.Ops {
		if o.Pending() {
			add("operation_never_completed", o.Start, "%s %s#%d (rpc %d) never returned: a stream did not complete", o.Actor, o.Kind, o.Idx, o.RPC)
		} else if hasEnd && len(c.Events) == 0 && o.Start < endStep && o.End >= endStep {
			add("operation_never_completed", o.Start, "%s %s#%d (rpc %d) was still blocked when every consumer had been released and the run was drained (step %d); it returned only when the harness ended the tunnel: %s", o.Actor, o.Kind, o.Idx, o.RPC, endStep, o.Err)
		}
	}
	for _, sn := range tr.Snapshots {
		if sn.Phase != "drain1" && sn.Phase != "drain2" && sn.Phase != "idle" {
			continue
		}
		if sn.InFlight != 0 || sn.Parked > 0 {
			continue // a goroutine held half-way through an operation (between dequeue and credit, say): not a quiescent point
		}
		S := sn.Step
		for i := range c.RPCs {
			sp := &c.RPCs[i]
			k, ok := ix.keyOf[i]
			if !ok {
				continue
			}
			frames := ix.byStream[k]
			var ns *FrameRec
			for _, f := range frames {
				if f.F.Kind == "new_stream" && f.SendErr == "" {
					ns = f
				}
			}
			sf := ix.settings[k.carrier]
			if ns == nil || ns.F.Revision != 1 || sf == nil || ns.Step > S {
				continue
			}
			for _, toServer := range []bool{true, false} {
				if toServer && !reqStreams(sp.Shape) || !toServer && !respStreams(sp.Shape) {
					continue // the look-ahead read of non-streaming sides is a different accounting
				}
				window := int64(ns.F.Window)
				sizes, rside, sside := sp.Resp, "caller", "handler"
				if toServer {
					window = int64(sf.F.Window)
					sizes, rside, sside = sp.Req, "handler", "caller"
				}
				var dataSent, dataRecv, creditEmitted, creditRecv int64
				open := true
				for _, f := range frames {
					if f.SendErr != "" || f.Step > S {
						continue
					}
					switch {
					case (f.F.Kind == "msg" || f.F.Kind == "more") && f.F.ToServer == toServer:
						dataSent += int64(f.F.DataLen)
						if f.Received >= 0 && f.Received <= S {
							dataRecv += int64(f.F.DataLen)
						}
					case f.F.Kind == "window_update" && f.F.ToServer != toServer:
						creditEmitted += int64(f.F.Size)
						if f.Received >= 0 && f.Received <= S {
							creditRecv += int64(f.F.Size)
						}
					case f.F.Kind == "half_close" && toServer, f.F.Kind == "cancel", f.F.Kind == "close":
						open = false // the end marker of this direction (or of the stream) is on the wire
					}
				}
				if !open || dataSent != dataRecv || creditEmitted != creditRecv {
					continue
				}
				var consumed int64
				n := 0
				recvOutstanding, senderBlocked := false, false
				for _, o := range tr.Ops {
					if o.RPC != i || o.Start > S {
						continue
					}
					busy := o.Pending() || o.End > S
					if o.Side == rside && o.Kind == "recv" {
						if busy {
							recvOutstanding = true
						} else if o.Code == CodeNil && n < len(sizes) {
							consumed += int64(wireSize(sizes[n]))
							n++
						}
					}
					if o.Side == sside && o.Kind == "send" && busy {
						senderBlocked = true
					}
				}
				desc := fmt.Sprintf("rpc %d (%s) toServer=%v at drained step %d (%s): sent %d, credit %d, consumed %d, window %d", i, sp.Shape, toServer, S, sn.Phase, dataSent, creditEmitted, consumed, window)
				if senderBlocked && recvOutstanding {
					add("sender_stranded", S, "%s: the sender is blocked while the reader is waiting for data", desc)
					continue
				}
				if senderBlocked && dataRecv-creditEmitted != window {
					add("sender_blocked_without_full_window", S, "%s: the sender is blocked with %d un-credited bytes outstanding", desc, dataRecv-creditEmitted)
				}
				if !recvOutstanding && creditEmitted != consumed {
					class := "credit_leak"
					if creditEmitted > consumed {
						class = "credit_surplus"
					}
					add(class, S, "%s: credit emitted differs from the bytes handed to the application", desc)
				}
				if !recvOutstanding && consumed == dataSent && dataSent-creditRecv != 0 {
					add("window_not_restored", S, "%s: the reader has read everything but %d bytes of window are still outstanding", desc, dataSent-creditRecv)
				}
				tr.label("c05_accounting_point")
				if senderBlocked {
					tr.label("c05_sender_blocked_at_drained_point")
				}
			}
		}
	}
	return vs
}

func ntC05Sim(c *Case, tr *Trace) bool {
	return tr.Labels["c05_sender_blocked_at_drained_point"] > 0 || ntSenderZeroWindow(c, tr)
}
