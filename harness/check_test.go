package harness

import (
	"encoding/json"
	"flag"
	"fmt"
	"os"
	"path/filepath"
	"runtime"
	"runtime/debug"
	"runtime/metrics"
	"sort"
	"strings"
	"sync"
	"sync/atomic"
	"testing"
	"testing/synctest"
	"time"

	"pgregory.net/rapid"
)

var (
	flagProp   = flag.String("verif.prop", "", "property id (C01..C18)")
	flagOut    = flag.String("verif.out", "", "directory for shard results and replay files")
	flagShard  = flag.Int("verif.shard", 0, "shard number")
	flagTier   = flag.String("verif.tier", "quick", "quick|thorough")
	flagReplay = flag.String("verif.replay", "", "replay one case file instead of generating")
	flagKnown  = flag.String("verif.known", "", "known-findings file")
	flagLog    = flag.String("verif.caselog", "", "append every case (JSON line) here before executing it (crash attribution)")
	flagPart   = flag.String("verif.part", "", "sub-check name (a property may consist of several parts)")
)

// Monitor evaluates one property's oracle over a finished run.
type Monitor func(c *Case, tr *Trace) []Violation

// part is one generated search of a property check.
type part struct {
	quick      int // cases per shard, quick tier
	thorough   int // cases per shard, thorough tier
	shards     int // 0 = 16
	race       bool
	procs      int // GOMAXPROCS (0 = 1)
	name       string
	gen        func(t *rapid.T) *Case
	monitors   []Monitor
	nontrivial func(c *Case, tr *Trace) bool
	labels     func(c *Case, tr *Trace) []string
	exec       func(t *testing.T, c *Case) *Trace // default: sim bubble
	expand     func(c *Case, tr *Trace) []*Case   // fault enumeration: variants derived from the base case and its run
	enum       func(shard, shards int, tier string) []*Case // complete enumeration of a finite family instead of random generation
}

type checkDef struct {
	prop        string
	rule        string
	level       string
	assumptions []string
	exhaustive  bool
	exhaustiveNote string
	parts       []part
}

func TestList(t *testing.T) {
	type pj struct {
		Name     string `json:"name"`
		Quick    int    `json:"quick"`
		Thorough int    `json:"thorough"`
		Shards   int    `json:"shards,omitempty"`
		Race     bool   `json:"race,omitempty"`
		Procs    int    `json:"procs,omitempty"`
	}
	type cj struct {
		Prop        string   `json:"prop"`
		Rule        string   `json:"rule"`
		Level       string   `json:"level"`
		Assumptions []string `json:"assumptions"`
		Exhaustive  bool     `json:"exhaustive,omitempty"`
		ExhaustiveNote string `json:"exhaustive_note,omitempty"`
		Parts       []pj     `json:"parts"`
	}
	emit := func(cd *checkDef) cj {
		c := cj{Prop: cd.prop, Rule: cd.rule, Level: cd.level, Assumptions: append(append([]string{}, commonAssumptions...), cd.assumptions...), Exhaustive: cd.exhaustive, ExhaustiveNote: cd.exhaustiveNote}
		if c.Level == "" {
			c.Level = "exploration"
		}
		for _, p := range cd.parts {
			j := pj{Name: p.name, Quick: p.quick, Thorough: p.thorough, Shards: p.shards, Race: p.race, Procs: p.procs}
			if j.Shards == 0 {
				j.Shards = 16
			}
			if j.Procs == 0 {
				j.Procs = 1
			}
			c.Parts = append(c.Parts, j)
		}
		return c
	}
	if *flagProp == "all" {
		var ks []string
		for k := range checks {
			ks = append(ks, k)
		}
		sort.Strings(ks)
		for _, k := range ks {
			b, _ := json.Marshal(emit(checks[k]))
			fmt.Printf("LIST %s\n", b)
		}
		return
	}
	cd := checks[*flagProp]
	if cd == nil {
		t.Skip("unknown property")
	}
	b, _ := json.Marshal(emit(cd))
	fmt.Printf("LIST %s\n", b)
}

var commonAssumptions = []string{
	"memconn (harness-owned in-memory carrier) stands in for grpc-go: FIFO per direction, marshal on send, in-band headers/status/reset, optional frame-count capacity bound; HTTP/2-level behaviour is not modelled",
	"frame-level schedules and armed yield points are owned by the harness; the order of library goroutines inside one scheduler step is whatever one P produces",
	"held on everything explored within the stated bounds; not a proof",
}

var checks = map[string]*checkDef{}

func register(cd *checkDef) { checks[cd.prop] = cd }

// shardStats is what one shard process reports.
type shardStats struct {
	Prop        string            `json:"prop"`
	Part        string            `json:"part"`
	Shard       int               `json:"shard"`
	Evaluations int               `json:"evaluations"`
	Nontrivial  []string          `json:"nontrivial_hashes"`
	Labels      map[string]int    `json:"labels"`
	Samples     []json.RawMessage `json:"samples"`
	Violations  []violationOut    `json:"violations"`
	Known       map[string]int    `json:"known"`
	Steps       int               `json:"steps"`
	Frames      int               `json:"frames"`
	WallS       float64           `json:"wall_s"`
	Requested   int               `json:"requested"`
	Extra       map[string]any    `json:"extra,omitempty"`
}

type violationOut struct {
	Violation
	Replay string `json:"replay"`
}

type knownFinding struct {
	Status   string            `json:"status"` // open | fixed
	Property string            `json:"property"`
	Class    string            `json:"class"`
	Match    map[string]string `json:"match,omitempty"`
	What     string            `json:"what"`
	Commit   string            `json:"commit,omitempty"`
}

func loadKnown() []knownFinding {
	if *flagKnown == "" {
		return nil
	}
	b, err := os.ReadFile(*flagKnown)
	if err != nil {
		return nil
	}
	var f struct {
		Findings []knownFinding `json:"findings"`
	}
	if json.Unmarshal(b, &f) != nil {
		return nil
	}
	return f.Findings
}

func matchKnown(kf []knownFinding, v Violation) *knownFinding {
	for i := range kf {
		k := &kf[i]
		if k.Status != "open" || k.Property != v.Prop || k.Class != v.Class {
			continue
		}
		ok := true
		for mk, mv := range k.Match {
			if v.Attrs[mk] != mv {
				ok = false
			}
		}
		if ok {
			return k
		}
	}
	return nil
}

// The simulation decides quiescence from the scheduler's run queue (pollQuiescent). The concurrent garbage collector would
// add goroutine states that are neither runnable nor blocked on anything of the program's: a goroutine parked for GC assist
// credit is invisible to the run queue yet resumes on its own. So the collector is off while a case runs in a bubble, and
// runs (stop-the-world, outside any bubble) between cases whenever the heap has grown.
var gcOnce sync.Once
var heapSample = []metrics.Sample{{Name: "/memory/classes/heap/objects:bytes"}}

func gcBetweenCases() {
	gcOnce.Do(func() { debug.SetGCPercent(-1) })
	metrics.Read(heapSample)
	if heapSample[0].Value.Uint64() > 192<<20 {
		runtime.GC()
	}
}

func runInBubble(t *testing.T, c *Case) (tr *Trace) {
	gcBetweenCases()
	defer func() {
		if r := recover(); r != nil {
			if tr == nil {
				tr = &Trace{PhaseStart: map[string]int{}}
			}
			tr.Deadlock = fmt.Sprint(r)
		}
	}()
	var inner *Trace
	defer func() {
		if tr == nil {
			tr = inner
		}
	}()
	synctest.Test(t, func(t *testing.T) {
		inner = newWorldTrace()
		runCaseInto(c, inner)
	})
	return inner
}

// partFits: can this part's executor run the case? (replay of records that do not name their part)
func partFits(p *part, c *Case) bool {
	switch {
	case c.Fcx != nil:
		return p.enum != nil || (p.exec != nil && strings.HasPrefix(p.name, "fcx_") && p.name != "fcx_parallel")
	case c.Par != nil:
		return p.name == "fcx_parallel"
	case c.Free:
		return p.exec != nil && !strings.HasPrefix(p.name, "fcx_")
	}
	return p.exec == nil
}

func caseSample(c *Case) json.RawMessage {
	cc := *c
	if len(cc.Tape) > 24 {
		cc.Tape = append(append([]int{}, cc.Tape[:24]...), -len(c.Tape))
	}
	return cc.JSON()
}

// watchdog runs outside any bubble. If the simulation makes no progress for
// 40 s of wall time it writes the case in progress as a replay file with class
// "hang" plus all stacks, and exits with status 3 (the driver decides whether
// that is a violation of the property under check or merely inconclusive).
var currentCase atomic.Pointer[Case]

func watchdog(out, prop string) {
	last := Progress.Load()
	lastChange := time.Now()
	for {
		time.Sleep(2 * time.Second)
		cur := Progress.Load()
		if cur != last {
			last, lastChange = cur, time.Now()
			continue
		}
		if currentCase.Load() == nil || time.Since(lastChange) < 40*time.Second {
			continue
		}
		buf := make([]byte, 4<<20)
		n := runtime.Stack(buf, true)
		c := currentCase.Load()
		v := Violation{Prop: prop, Class: "hang", Details: "the simulation made no progress for 40s of wall time; stacks in the trace excerpt"}
		rf := replayFile{Prop: prop, Part: "", Violations: []Violation{v}, Case: c, Trace: string(buf[:n])}
		b, _ := json.MarshalIndent(rf, "", " ")
		path := filepath.Join(out, fmt.Sprintf("replay-%s-hang-%d.json", prop, *flagShard))
		_ = os.WriteFile(path, b, 0o644)
		fmt.Printf("HANG property=%s replay=%s\n", prop, path)
		os.Exit(3)
	}
}

func TestCheck(t *testing.T) {
	if *flagProp == "" {
		t.Skip("no -verif.prop")
	}
	cd := checks[*flagProp]
	if cd == nil {
		t.Fatalf("unknown property %q", *flagProp)
	}
	known := loadKnown()
	out := *flagOut
	if out == "" {
		out = t.TempDir()
	}
	_ = os.MkdirAll(out, 0o755)
	go watchdog(out, cd.prop)
	for pi := range cd.parts {
		p := &cd.parts[pi]
		if *flagPart != "" && *flagPart != p.name {
			continue
		}
		st := &shardStats{Prop: cd.prop, Part: p.name, Shard: *flagShard, Labels: map[string]int{}, Known: map[string]int{}}
		seen := map[string]bool{}
		start := time.Now()
		var logf *os.File
		if *flagLog != "" {
			logf, _ = os.OpenFile(*flagLog, os.O_CREATE|os.O_WRONLY|os.O_APPEND, 0o644)
		}
		var prop func(rt *rapid.T, c *Case)
		propExpand := func(rt *rapid.T, c *Case) {
			// base run, then every derived variant
			tr := runInBubble(t, c)
			for _, v := range p.expand(c, tr) {
				prop(rt, v)
			}
		}
		prop = func(rt *rapid.T, c *Case) {
			if logf != nil {
				logf.Write(append(c.JSON(), '\n'))
			}
			currentCase.Store(c)
			defer currentCase.Store(nil)
			Progress.Add(1) // every case is progress (the unit-level engines have no quiescent points of their own to count)
			var tr *Trace
			if p.exec != nil {
				tr = p.exec(t, c)
			} else {
				tr = runInBubble(t, c)
			}
			var vs []Violation
			for _, m := range p.monitors {
				vs = append(vs, m(c, tr)...)
			}
			st.Evaluations++
			if tr.Fcx != nil {
				if st.Extra == nil {
					st.Extra = map[string]any{}
				}
				n, _ := st.Extra["schedules"].(int)
				st.Extra["schedules"] = n + tr.Fcx.Schedules
				st.Evaluations += tr.Fcx.Schedules - 1
			}
			st.Steps += tr.Steps
			st.Frames += len(tr.Frames)
			for l, n := range tr.Labels {
				st.Labels[l] += n
			}
			if p.labels != nil {
				for _, l := range p.labels(c, tr) {
					st.Labels[l]++
				}
			}
			nt := p.nontrivial == nil || p.nontrivial(c, tr)
			if nt {
				h := c.Hash()
				if !seen[h] {
					seen[h] = true
					st.Nontrivial = append(st.Nontrivial, h)
					if len(st.Samples) < 4 {
						st.Samples = append(st.Samples, caseSample(c))
					}
				}
			}
			var fresh []Violation
			for _, v := range vs {
				if v.Prop != cd.prop {
					continue
				}
				if k := matchKnown(known, v); k != nil {
					st.Known[k.Property+" "+k.What]++
					continue
				}
				fresh = append(fresh, v)
			}
			if len(fresh) > 0 {
				path := writeReplay(out, cd.prop, p.name, c, tr, fresh)
				if rt != nil {
					rt.Fatalf("VIOLATION %s replay=%s", fresh[0], path)
				}
				st.Violations = append(st.Violations, violationOut{fresh[0], path})
			}
		}
		if *flagReplay != "" {
			b, err := os.ReadFile(*flagReplay)
			if err != nil {
				t.Fatal(err)
			}
			var rf replayFile
			if err := json.Unmarshal(b, &rf); err != nil {
				t.Fatal(err)
			}
			if rf.Part != "" && rf.Part != p.name {
				continue
			}
			if rf.Part == "" && !partFits(p, rf.Case) {
				continue // (a hang record does not name its part: take the first part whose executor fits the case)
			}
			prop(nil, rf.Case)
			for _, v := range st.Violations {
				fmt.Printf("VIOLATION property=%s replay=%s\n", cd.prop, v.Replay)
				fmt.Println("  ", v.Violation.String())
			}
			if len(st.Violations) > 0 {
				t.Fail()
			}
			continue
		}
		if p.enum != nil {
			shards := p.shards
			if shards == 0 {
				shards = 16
			}
			cases := p.enum(*flagShard, shards, *flagTier)
			st.Requested = len(cases)
			for _, c := range cases {
				prop(nil, c)
				if len(st.Violations) > 0 {
					break
				}
			}
			if st.Extra == nil {
				st.Extra = map[string]any{}
			}
			st.Extra["enumerated_configurations"] = len(cases)
			st.WallS = time.Since(start).Seconds()
			b, _ := json.Marshal(st)
			_ = os.WriteFile(filepath.Join(out, fmt.Sprintf("shard-%s-%s-%d.json", cd.prop, p.name, *flagShard)), b, 0o644)
			continue
		}
		func() {
			defer func() {
				// rapid reports failure through t; collect what we have
			}()
			ok := t.Run(p.name, func(t *testing.T) {
				rapid.Check(t, func(rt *rapid.T) {
					c := p.gen(rt)
					if p.expand != nil {
						propExpand(rt, c)
						return
					}
					prop(rt, c)
				})
			})
			if !ok {
				// find the replay file written last (the shrunk case)
				path := filepath.Join(out, fmt.Sprintf("replay-%s-%s-%d.json", cd.prop, p.name, *flagShard))
				if b, err := os.ReadFile(path); err == nil {
					var rf replayFile
					if json.Unmarshal(b, &rf) == nil && len(rf.Violations) > 0 {
						st.Violations = append(st.Violations, violationOut{rf.Violations[0], path})
					}
				}
				if len(st.Violations) == 0 {
					st.Violations = append(st.Violations, violationOut{Violation{Prop: cd.prop, Class: "harness_failure", Details: "rapid reported a failure without a replay file"}, ""})
				}
			}
		}()
		st.WallS = time.Since(start).Seconds()
		if logf != nil {
			logf.Close()
		}
		b, _ := json.Marshal(st)
		_ = os.WriteFile(filepath.Join(out, fmt.Sprintf("shard-%s-%s-%d.json", cd.prop, p.name, *flagShard)), b, 0o644)
	}
}

type replayFile struct {
	Prop       string      `json:"prop"`
	Part       string      `json:"part"`
	Violations []Violation `json:"violations"`
	Case       *Case       `json:"case"`
	Trace      string      `json:"trace_excerpt"`
}

func writeReplay(dir, prop, partName string, c *Case, tr *Trace, vs []Violation) string {
	rf := replayFile{Prop: prop, Part: partName, Violations: vs, Case: c, Trace: tr.Excerpt(400)}
	b, _ := json.MarshalIndent(rf, "", " ")
	path := filepath.Join(dir, fmt.Sprintf("replay-%s-%s-%d.json", prop, partName, *flagShard))
	_ = os.WriteFile(path, b, 0o644)
	return path
}

// ---------------------------------------------------------------------------
// labels shared by several checks

func commonLabels(c *Case, tr *Trace) []string {
	var ls []string
	ls = append(ls, "dir="+c.Cfg.Dir, "client_fc="+c.Cfg.ClientFC, "server_fc="+c.Cfg.ServerFC, fmt.Sprintf("cap=%d", c.Cfg.Cap), fmt.Sprintf("rpcs=%d", len(c.RPCs)))
	maxSz := 0
	for _, r := range c.RPCs {
		ls = append(ls, "shape="+r.Shape)
		for _, s := range append(append([]int{}, r.Req...), r.Resp...) {
			if s > maxSz {
				maxSz = s
			}
		}
	}
	w := wireSize(maxSz)
	switch {
	case w >= 1<<20:
		ls = append(ls, "maxmsg=>1M")
	case w > 65537:
		ls = append(ls, "maxmsg=>64K")
	case w >= 65535:
		ls = append(ls, "maxmsg=64K+-1")
	case w > 16385:
		ls = append(ls, "maxmsg=16K..64K")
	case w >= 16383:
		ls = append(ls, "maxmsg=16K+-1")
	default:
		ls = append(ls, "maxmsg=<16K")
	}
	rev := -1
	for _, f := range tr.Frames {
		if f.F != nil && f.F.Kind == "new_stream" {
			rev = int(f.F.Revision)
		}
	}
	ls = append(ls, fmt.Sprintf("revision=%d", rev))
	for _, e := range tr.Events {
		if e.Fired >= 0 {
			ls = append(ls, "event="+e.Kind)
		} else {
			ls = append(ls, "event_not_fired="+e.Kind)
		}
	}
	for _, y := range tr.Yields {
		ls = append(ls, "yield="+y.Point)
	}
	blocked := false
	for _, o := range tr.Ops {
		if o.Kind == "send" && o.End > o.Start {
			blocked = true
		}
	}
	if blocked {
		ls = append(ls, "sender_blocked")
	}
	if tr.Deadlock != "" {
		ls = append(ls, "bubble_deadlock")
	}
	if tr.Aborted != "" {
		ls = append(ls, "aborted")
	}
	sort.Strings(ls)
	// dedupe
	out := ls[:0]
	for i, l := range ls {
		if i == 0 || l != ls[i-1] {
			out = append(out, l)
		}
	}
	return out
}

// multiChunkOrInterleaved: C01's non-triviality rule.
func ntC01(c *Case, tr *Trace) bool {
	lastID := map[int]int64{}
	seen := map[streamKey]bool{}
	for _, f := range tr.Frames {
		if f.F == nil || f.SendErr != "" {
			continue
		}
		if f.F.Kind == "more" && f.Delivered >= 0 {
			return true
		}
		if f.F.Kind == "msg" || f.F.Kind == "more" {
			k := streamKey{f.Stream, f.F.ID}
			if prev, ok := lastID[f.Stream]; ok && prev != f.F.ID && seen[k] {
				return true // A..B..A interleaving of data frames
			}
			lastID[f.Stream] = f.F.ID
			seen[k] = true
		}
	}
	return faultStruckInFlight(c, tr)
}

// faultStruckInFlight: some event fired while at least one RPC was started and not complete on both sides.
func faultStruckInFlight(c *Case, tr *Trace) bool {
	for _, e := range tr.Events {
		if e.Fired < 0 || e.Kind == "release" {
			continue
		}
		for i := range c.RPCs {
			started, done := false, true
			for _, o := range tr.Ops {
				if o.RPC != i {
					continue
				}
				if o.Start <= e.Fired {
					started = true
				}
				if o.Pending() || o.End >= e.Fired {
					done = false
				}
			}
			if started && !done {
				return true
			}
		}
	}
	return false
}

func init() {
	mixedParts := func(mons ...Monitor) []part {
		return []part{
			{name: "mixed", gen: genMixed, monitors: mons, labels: commonLabels, quick: 400, thorough: 12000},
			{name: "mixed_term", gen: genMixedTerm, monitors: mons, labels: commonLabels, quick: 600, thorough: 20000},
		}
	}
	c01 := mixedParts(monC01)
	for i := range c01 {
		c01[i].nontrivial = ntC01
	}
	register(&checkDef{prop: "C01", parts: c01,
		rule: "cases are drawn by rapid from the mixed-workload generators (1-6 concurrent RPCs of mixed shapes, boundary-biased message sizes, random topology/flow-control/capacity, random schedule tape, optional termination event); non-trivial = at least one multi-chunk message was delivered, or data frames of two RPCs interleaved on the carrier, or a termination event struck while an RPC was in flight; distinct = distinct SHA-256 of the case JSON"})
}

func ntAbnormalEnd(c *Case, tr *Trace) bool {
	// C14: at least one RPC ended abnormally (cancel, deadline, rejection, violation, tunnel end)
	for _, o := range tr.Ops {
		if o.Side == "caller" && !o.Pending() && (o.Kind == "recv" || o.Kind == "invoke" || o.Kind == "start") && o.Code > 0 {
			return true
		}
	}
	return false
}

func ntSenderZeroWindow(c *Case, tr *Trace) bool {
	// some flow-controlled sender had to wait for credit: a data frame was emitted in a later step than the send op started
	for _, o := range tr.Ops {
		if o.Kind == "send" && (o.Pending() || o.End > o.Start) {
			return true
		}
	}
	return false
}

func ntMultiRPC(c *Case, tr *Trace) bool {
	n := 0
	for _, f := range tr.Frames {
		if f.F != nil && f.F.Kind == "new_stream" && f.SendErr == "" {
			n++
		}
	}
	return n >= 2
}

func init() {
	with := func(ps []part, nt func(*Case, *Trace) bool) []part {
		out := append([]part{}, ps...)
		for i := range out {
			out[i].nontrivial = nt
		}
		return out
	}
	base := func(mons ...Monitor) []part {
		return []part{
			{name: "mixed", gen: genMixed, monitors: mons, labels: commonLabels, quick: 400, thorough: 12000},
			{name: "mixed_term", gen: genMixedTerm, monitors: mons, labels: commonLabels, quick: 600, thorough: 20000},
		}
	}
	// (C13's quick tier runs three times the cases of the shared mixed profiles: the shapes some framing defects need - a handler
	// that returns right after a read, on a bounded carrier - are about one case in forty thousand at the shared counts)
	c13base := base(monC13)
	for i := range c13base {
		c13base[i].quick *= 3
	}
	register(&checkDef{prop: "C13", parts: with(c13base, ntMultiRPC),
		rule: "every frame of every run of the mixed and mixed+termination generators is checked by the online protocol monitor; non-trivial = at least two tunneled streams were opened on the carrier; distinct = distinct SHA-256 of the case JSON"})
	register(&checkDef{prop: "C14", parts: with(base(monC14), ntAbnormalEnd),
		rule: "goroutine census and stream-table snapshots at the quiescent points of every run (after establishment, after draining, after releasing stalled actors, after ending every tunnel, after one more virtual hour); non-trivial = at least one RPC ended abnormally (cancel, deadline, rejection, tunnel end)"})
	register(&checkDef{prop: "C06", parts: with(base(monC06Sender), ntSenderZeroWindow),
		rule: "wire-tap invariant on every data and window_update frame; non-trivial = a sender actually had to wait for credit"})
	// C08: "exactly the named handler" also when two services on the tunnel share method names: a second service verif.Alt
	// (same method names and shapes, its own handlers) is registered everywhere, and here about a third of the RPCs call it.
	// (The flags are drawn after the shared generator's own draws, so the shared profiles are the same cases as elsewhere.)
	c08base := base(monC08)
	for i := range c08base {
		g := c08base[i].gen
		c08base[i].gen = func(t *rapid.T) *Case {
			c := g(t)
			for j := range c.RPCs {
				if c.RPCs[j].Method == "" && rapid.IntRange(0, 2).Draw(t, fmt.Sprintf("r%d.alt", j)) == 0 {
					c.RPCs[j].Alt = true
				}
			}
			return c
		}
	}
	register(&checkDef{prop: "C08", parts: with(c08base, ntMultiRPC),
		rule: "new_stream order on the wire and handler invocation log vs caller log (the handler that ran is the one registered for the full service/method name: two services with the same method names are registered, about a third of the RPCs call the second); non-trivial = at least two streams were opened"})
}

func ntC02(c *Case, tr *Trace) bool {
	for _, r := range c.RPCs {
		if r.Creds != nil || (r.Code != 0 && len(r.Details) > 0) {
			return true
		}
		for _, op := range r.HOps {
			for _, v := range op.MD {
				if len(v) > 1 {
					return true
				}
			}
			if (op.Kind == "settrl" || op.Kind == "sethdr" || op.Kind == "sendhdr") && len(op.MD) > 0 {
				return true
			}
		}
	}
	return false
}

func init() {
	register(&checkDef{prop: "C02", parts: []part{
		{name: "c02", gen: genC02, monitors: []Monitor{monC02}, labels: commonLabels, nontrivial: ntC02, quick: 1200, thorough: 40000},
	},
		rule: "rapid draws 1-3 RPCs with a generated handler behaviour (any order of SetHeader/SendHeader/Send/SetTrailer, all 17 codes, messages incl. multi-byte and 4 KB, 0-3 details), generated request metadata (absent, empty, multi-valued, -bin), call options (Header, Trailer, Peer, PerRPCCredentials with/without outgoing metadata) and caller read orders, a schedule tape and the trailer-publication yield point; oracle = equality with a small model of the gRPC header/trailer/status rules, trailers read immediately after the terminal result in the same step; non-trivial = non-empty headers/trailers or multi-valued key, non-OK status with details, or credentials in use"})
}

func labelsC03(c *Case, tr *Trace) []string {
	ls := commonLabels(c, tr)
	_, kind := disturberOf(c)
	return append(ls, "disturber="+kind)
}

func init() {
	register(&checkDef{prop: "C03", parts: []part{
		{name: "c03", gen: genC03, monitors: []Monitor{monC03}, labels: labelsC03, nontrivial: ntC03, quick: 1500, thorough: 40000},
	},
		rule: "1-4 bystander RPCs (mixed shapes, sizes up to 150 KB) plus one disturber of a drawn kind (handler error, unknown/malformed/empty method, started after shutdown, cancelled, expired, caller or handler that never reads while its peer sends 2-8 windows, request metadata / method name / response header / trailer that cannot be encoded), interleaved by the tape; metamorphic oracle: every bystander completes exactly as it would without the disturber, the tunnel is still up and a fresh probe RPC succeeds, and with flow control negotiated bystanders are complete at the drained point before stalled consumers are released; non-trivial = the disturber's first frame lies strictly between bystander frames, or a never-reading disturber actually exhausted a window"})
}

func init() {
	register(&checkDef{prop: "C04", level: "fault_enumeration", parts: []part{
		{name: "c04", gen: genC04, monitors: []Monitor{monC04}, labels: labelsC04, nontrivial: ntC04, quick: 1000, thorough: 20000},
		{name: "c04_sweep", gen: genC04Base, expand: expandC04, monitors: []Monitor{monC04}, labels: labelsC04, nontrivial: ntC04, quick: 2, thorough: 40},
	},
		rule: "part c04: mixed workloads (1-6 RPCs, all shapes, stalled consumers, handlers that run until cancelled, callers blocked in Header) with one termination cause (Close on either end, cancel/expiry of the opening context, Stop, carrier break at client end / server end / both) at a drawn frame boundary k; part c04_sweep: for each sampled workload the fault-free run is counted and EVERY cause is injected at EVERY delivered-frame boundary k in [0, F]; oracle: invariants of the final drained state (Done closed, Err nil iff clean, serving calls returned, every op returned, in-flight calls non-OK, handler contexts done, later RPC fails at once); non-trivial = at least one RPC was in flight when the fault struck"})
}

func init() {
	register(&checkDef{prop: "C07", level: "fault_enumeration", parts: []part{
		{name: "c07", gen: genC07, monitors: []Monitor{monC07}, labels: labelsC07, nontrivial: ntC07, quick: 1000, thorough: 25000},
		{name: "c07_sweep", gen: genC07Base, expand: expandC07, monitors: []Monitor{monC07}, labels: labelsC07, nontrivial: ntC07, quick: 3, thorough: 60},
		{name: "c07_bounded", gen: genC07Bounded, monitors: []Monitor{monC07}, labels: labelsC07, nontrivial: ntC07, quick: 600, thorough: 15000},
	},
		rule: "0-3 bystanders plus one victim RPC (any shape; handler that runs until cancelled, stalled consumers, own error status, caller blocked in Header) whose context is cancelled, or whose deadline expires, at a drawn delivered-frame boundary k (part c07) or at EVERY boundary k in [0, F] of sampled workloads for both kinds (part c07_sweep); the tape orders the cancel frame against the peer's close/data/window frames and late frames are delivered; oracle: same-step local release with the right status, handler released once the cancel frame is processed, exactly one legal outcome (complete success incl. trailers, cancellation status, or the handler's own status), bystanders and tunnel unaffected; non-trivial = the cancellation fell strictly inside the victim's frame sequence or raced with close_stream"})
}

func init() {
	register(&checkDef{prop: "C10", parts: []part{
		{name: "c10", gen: genC10, monitors: []Monitor{monC10}, labels: commonLabels, nontrivial: ntC10, quick: 1200, thorough: 30000},
		{name: "c10_late_serve", gen: genC10Late, monitors: []Monitor{monC10Late}, labels: labelsC10Late, nontrivial: ntC10Late, quick: 800, thorough: 25000},
	},
		rule: "0-4 in-flight RPCs of any shape in any phase (tape-positioned), InitiateShutdown (forward) or GracefulStop (reverse, 1 or 3 tunnels) at a drawn step, 0-4 RPCs attempted afterwards whose frames interleave with the in-flight ones, optionally Stop at a later drawn step; oracle per clause of the statement (refusal with Unavailable judged by when the server processed new_stream, in-flight results equal the no-shutdown model, tunnel up until they finish, GracefulStop/Stop return points); non-trivial = at least one RPC in flight at the shutdown step and at least one processed after it. c10_late_serve: one more Serve call on a serving reverse-tunnel server within a few steps of Stop (optionally after GracefulStop), the new carrier stream's round trip delivered by the schedule; oracle: Stop returns, registered Serve calls return before it does, a Serve call caught mid-open does not go on to serve (it has returned once the run is drained), no handler runs after Stop returned; non-trivial = Stop ran while a Serve call was between opening its stream and registering it"})
}

func init() {
	register(&checkDef{prop: "C09", parts: []part{
		{name: "raw_client_sweep", gen: genRawSweepBase, expand: expandRawSweep, monitors: []Monitor{monRawClient("C09")}, labels: labelsRaw, nontrivial: ntRawSweep, quick: 1, thorough: 30},
		{name: "raw_client", gen: genRawClient, monitors: []Monitor{monRawClient("C09")}, labels: labelsRaw, nontrivial: ntRawClient, quick: 1500, thorough: 40000},
	},
		rule: "raw frame scripts against the real endpoints: a valid interleaved conversation for 1-4 streams drawn from the protocol grammar, 0-3 deviations from a catalogue of 28 (client role) applied at drawn positions, a closing conforming unary stream, a schedule tape; a validator model re-derives tunnel-level vs stream-level from the frames; oracle: no panic, serving call returns and nothing is left after the peer hangs up, tunnel-level violation ends the tunnel with an error, stream-level deviations leave the tunnel up and conforming streams complete with their scripted results; non-trivial = a script with at least one deviation whose frames were processed"})
}

func addParts(prop string, ps ...part) {
	cd := checks[prop]
	cd.parts = append(cd.parts, ps...)
}

func init() {
	addParts("C06", part{name: "raw_overrun", gen: genRawOverrun, monitors: []Monitor{monRawClient("C06")}, labels: labelsRaw, nontrivial: ntRawClient, quick: 500, thorough: 15000})
	addParts("C08", part{name: "raw_ids", gen: genRawIDs, monitors: []Monitor{monRawClient("C08")}, labels: labelsRaw, nontrivial: ntRawClient, quick: 500, thorough: 15000})
	addParts("C03", part{name: "raw_revision", gen: genRawRevision, monitors: []Monitor{monRawClient("C03")}, labels: labelsRaw, nontrivial: ntRawClient, quick: 300, thorough: 8000})
	register(&checkDef{prop: "C16", parts: []part{
		{name: "raw_shapes", gen: genRawShapes, monitors: []Monitor{monRawClient("C16")}, labels: labelsRaw, nontrivial: ntRawClient, quick: 800, thorough: 20000},
	},
		rule: "raw peers for all four call shapes: 0, 1, 2 or many messages on a non-streaming side, split across chunks, before/after half-close or close, tape-ordered against the handler's / caller's reads; plus application send sequences with one send too many; oracle: the handler of a non-streaming request never obtains a second message and the RPC is closed with InvalidArgument, a caller of a non-streaming response gets an error for 0 or >=2 messages, the extra application send is refused and puts nothing on the wire; non-trivial = the offending message reached the endpoint while the RPC was open"})
}

func init() {
	addParts("C09", part{name: "raw_server_sweep", gen: genRawServerSweepBase, expand: expandRawServerSweep, monitors: []Monitor{monRawServer("C09")}, labels: labelsRaw, nontrivial: ntRawSweep, quick: 1, thorough: 30})
	addParts("C09", part{name: "raw_server", gen: genRawServer, monitors: []Monitor{monRawServer("C09")}, labels: labelsRaw, nontrivial: ntRawServer, quick: 1200, thorough: 30000})
	addParts("C16", part{name: "raw_server_shapes", gen: genRawServerShapes, monitors: []Monitor{monRawServer("C16")}, labels: labelsRaw, nontrivial: ntRawServer, quick: 600, thorough: 15000})
	addParts("C06", part{name: "raw_server_overrun", gen: genRawServerOverrun, monitors: []Monitor{monRawServer("C06")}, labels: labelsRaw, nontrivial: ntRawServer, quick: 400, thorough: 10000})
}

func ntRawServer(c *Case, tr *Trace) bool {
	if c.Raw == nil || len(c.Raw.Dev) == 0 {
		return false
	}
	n := 0
	for _, o := range tr.Ops {
		if o.Side == "raw" && !o.Pending() && o.Code == CodeNil {
			n++
		}
	}
	return n >= 2
}

func init() {
	addParts("C16", part{name: "app_extra_send", gen: genC16App, monitors: []Monitor{monC16App}, labels: commonLabels, nontrivial: ntC16App, quick: 400, thorough: 10000})
}

func init() {
	register(&checkDef{prop: "C11", parts: []part{
		{name: "c11_matrix", gen: genC11Matrix, monitors: []Monitor{monC11Matrix}, labels: labelsC11, quick: 300, thorough: 6000},
		{name: "c11_legacy_client", gen: genC11LegacyClient, monitors: []Monitor{monC11LegacyClient}, labels: labelsRaw, quick: 300, thorough: 6000},
		{name: "c11_settings", gen: genC11Settings, monitors: []Monitor{monC11Settings}, labels: labelsC11, nontrivial: ntC11Settings, quick: 600, thorough: 15000},
	},
		rule: "part c11_matrix: the full matrix {client, server} x {flow control enabled, disabled, legacy} x {forward, reverse} with one RPC of every shape, wire-tap clauses (window_update / revision one iff both advertise and neither disabled; nothing revision-one towards a peer that did not advertise) and completion of every RPC; part c11_legacy_client: a frame-level revision-zero reference client against the real server; part c11_settings: a raw server presenting generated settings (revision lists incl. empty, duplicates, unknown 2/7/-1; any window; wrong stream id; wrong first frame; stream end before settings) judged by a model of the negotiation (highest common revision, empty = revision zero, otherwise the tunnel fails with an error at the drained point after Start); non-trivial (settings part) = anything but the stock settings message"})
}

func init() {
	register(&checkDef{prop: "C18", parts: []part{
		{name: "c18", gen: genC18, monitors: []Monitor{monC18}, labels: labelsC18, nontrivial: ntC18, quick: 2500, thorough: 80000},
	},
		rule: "grpc-timeout header values from a grammar (all six units and other characters; 1-20 digit strings incl. leading zeros, per-unit int64-overflow boundaries -1/0/+1, 99999999/100000000; signs, spaces, empty, unit only, digits only, non-ASCII digits; 1-3 repeated headers) attached to tunneled calls through the public API in a synctest bubble; oracle: a reference decoder written from the gRPC wire specification (cross-checked against a copy of grpc-go's decoder on every value) - well-formed: ctx.Deadline() minus virtual now is exactly the encoded duration; overflowing: further away than 100 years or none; malformed: no deadline; non-trivial = a malformed, overflowing or 8-digit value"})
}

func init() {
	register(&checkDef{prop: "C05", exhaustive: true,
		exhaustiveNote: "part fcx_small enumerates EVERY schedule (depth-first over the choice tree of the controlled scheduler) of every configuration of the small family: window 0-3 x 10 message lists of 0-4 byte messages x 11 credit lists (up to 3 credits of 1-3) x {cancel action, none}; exhaustive for that sub-space only (thorough tier: the whole family; quick tier: credit lists of length <= 2); label config_truncated counts configurations whose tree exceeded the run bound",
		parts: []part{
			{name: "fcx_small", enum: enumFcxSmall, exec: execFcx, monitors: []Monitor{monFcx("C05")}, labels: labelsFcx, nontrivial: ntFcx, quick: 1, thorough: 1},
			{name: "fcx_sampled", gen: genFcxSampled, exec: execFcx, monitors: []Monitor{monFcx("C05")}, labels: labelsFcx, nontrivial: ntFcx, quick: 3000, thorough: 100000},
			{name: "fcx_receiver", gen: genFcxReceiver, exec: execFcx, monitors: []Monitor{monFcx("C05")}, labels: labelsFcx, nontrivial: ntFcx, quick: 2000, thorough: 60000},
			{name: "fcx_parallel", gen: genFcxPar, exec: execFcxPar, monitors: []Monitor{monFcxPar}, labels: labelsFcxPar, nontrivial: ntFcxPar, quick: 12, thorough: 400, shards: 4, procs: 8},
		},
		rule: "unit-level controlled scheduler over flow_control.go (verif constructors + yield points between load, wait, CAS, sendFunc and inside updateWindow): sender goroutine S, updater goroutine U and the atomic action cancel are released one at a time; oracle = terminal-state rule (a blocked sender only with all credit consumed and data remaining; all sent when credit suffices; context error after cancel) and safety at every sendFunc call; small family enumerated exhaustively, larger windows/messages sampled by rapid; receivers are checked against a queue+window model with one blocked reader; plus system-level credit accounting at drained quiescent points of generated streaming workloads; non-trivial = an update step ran while the sender sat between its load and its wait/CAS, or the schedule ended with the sender legitimately waiting for credit"})
	addParts("C06", part{name: "fcx_sampled", gen: genFcxSampled, exec: execFcx, monitors: []Monitor{monFcx("C06")}, labels: labelsFcx, nontrivial: ntFcx, quick: 1500, thorough: 50000},
		part{name: "fcx_receiver", gen: genFcxReceiver, exec: execFcx, monitors: []Monitor{monFcx("C06")}, labels: labelsFcx, nontrivial: ntFcx, quick: 1500, thorough: 40000})
	addParts("C01", part{name: "mixed_srvdeadline", gen: genMixedSrvDeadline, monitors: []Monitor{monC01}, labels: commonLabels, quick: 300, thorough: 10000})
	addParts("C01", part{name: "fcx_chunking", gen: genFcxSampled, exec: execFcx, monitors: []Monitor{monFcx("C01")}, labels: labelsFcx, nontrivial: ntFcx, quick: 1500, thorough: 50000})
}

func init() {
	addParts("C05", part{name: "c05_sim", gen: genC05Sim, monitors: []Monitor{monC05Sim}, labels: commonLabels, nontrivial: ntC05Sim, quick: 60, thorough: 2500})
	// the accounting oracle also runs over the general workloads
	addParts("C05", part{name: "mixed", gen: genMixed, monitors: []Monitor{monC05Sim}, labels: commonLabels, nontrivial: ntC05Sim, quick: 200, thorough: 6000})
}

func init() {
	register(&checkDef{prop: "C12", parts: []part{
		{name: "c12", gen: genC12, monitors: []Monitor{monC12, monC14}, labels: labelsC12, nontrivial: ntC12, quick: 800, thorough: 25000},
		{name: "stress_registry", gen: genStressReg, exec: execStressReg, monitors: []Monitor{monStressReg}, labels: labelsStressReg, nontrivial: ntStressReg, quick: 100, thorough: 4000, race: true, procs: 16, shards: 4},
		{name: "c12_windows", gen: genC12Win, monitors: []Monitor{monC12, monC14}, labels: labelsC12Win, nontrivial: ntC12Win, quick: 1200, thorough: 40000},
	},
		rule: "model-based registry histories: open(key) with keys from a small colliding pool incl. nil and no key function, close from the handler side / by Stop / by context / by carrier break, RPCs routed through AsChannel or KeyAsChannel(k) (with bursts), Ready, WaitForReady with virtual-time timeouts, AllReverseTunnels, executed one at a time to quiescence against the real handler and against a list model in lock-step; yield points between the two registration / deregistration steps armed; non-trivial = at least two tunnels share a key and a close happened between routed RPCs. c12_windows: the same histories with opens and closes held half-way (parked inside the application's AffinityKey / open / close callbacks or at the yield points between the registry's steps) while other operations run, judged against a three-valued model (in / out / in transition); non-trivial = a registry query ran while an open or close was held. stress_registry: 2-8 goroutines concurrently open tunnels (fresh and colliding keys) and wait for / query / route through the same keys, free-running on 16 Ps under the race detector; since the set only grows, the end state is schedule-independent: every key with a tunnel is Ready and routes to a tunnel with that key, AllReverseTunnels lists exactly the opened tunnels, every WaitForReady on such a key has returned nil (a call still parked in its select while Ready() is true is a lost wake-up, judged by state), and after stopping everything both registry levels are empty; non-trivial = at least two goroutines and a key that was both opened and waited for / queried / routed through"})
}

func init() {
	register(&checkDef{prop: "C17", parts: []part{
		{name: "c17", gen: genC17, monitors: []Monitor{monC17}, labels: commonLabels, nontrivial: ntC17, quick: 600, thorough: 20000},
	},
		rule: "generated opening metadata / peer / context value per tunnel, {forward, reverse with 1-4 tunnels behind one handler, nested in forward, nested in reverse}, 2-6 concurrent RPCs routed round-robin whose handlers and callers call the four accessors, mutate what they get (new key, in-place edit of value slices, delete) and call them again; oracle: equality with what the opener sent / the carrying channel (==) / the RPC's own request metadata, and invisibility of every mutation to every later accessor call; non-trivial = at least two tunnels or a nested tunnel, and at least two handler invocations"})
}

func init() {
	register(&checkDef{prop: "C15", parts: []part{
		{name: "sim_bounded_carrier", gen: genMixedTermBounded, monitors: []Monitor{monCarrierUse}, labels: commonLabels, nontrivial: ntCarrierUse, quick: 400, thorough: 12000},
		{name: "stress", gen: genStress, exec: execStress, monitors: []Monitor{monC15}, labels: commonLabels, nontrivial: ntStress, quick: 150, thorough: 6000, race: true, procs: 16, shards: 4},
		{name: "stress_registry", gen: genStressReg, exec: execStressReg, monitors: []Monitor{monStressReg}, labels: labelsStressReg, nontrivial: ntStressReg, quick: 100, thorough: 4000, race: true, procs: 16, shards: 4},
		{name: "stress_grpc", gen: genStressGRPC, exec: execStress, monitors: []Monitor{monC15}, labels: commonLabels, nontrivial: ntStress, quick: 150, thorough: 6000, race: true, procs: 16, shards: 4},
	},
		assumptions: []string{"the race detector judges only accesses that actually occur in a run; this is dynamic exploration under real parallelism"},
		rule: "stress engine: rapid-generated concurrent programs (2-8 RPCs started concurrently, a sender and a receiver goroutine per RPC on both ends, readers of Header/Trailer and of grpc.Header/grpc.Trailer targets right after their completion signal, cancellations racing with completion, Close / Stop / GracefulStop / InitiateShutdown / carrier break / new tunnels / registry queries fired mid-run from other goroutines, delay injection at up to four yield points) run free on 16 Ps in a binary built with -race; oracle: zero race reports, zero panics, no hang, message integrity; non-trivial = at least two RPCs or a teardown event overlapped the run"})
}

func init() {
	// C13 and C14 quantify over the runs explored for the other properties: the union of their profiles
	union := func(prop string, mon Monitor, nt func(*Case, *Trace) bool) {
		addParts(prop,
			part{name: "u_c02", gen: genC02, monitors: []Monitor{mon}, labels: commonLabels, nontrivial: nt, quick: 250, thorough: 8000},
			part{name: "u_c03", gen: genC03, monitors: []Monitor{mon}, labels: labelsC03, nontrivial: nt, quick: 250, thorough: 8000},
			part{name: "u_c04", gen: genC04, monitors: []Monitor{mon}, labels: commonLabels, nontrivial: nt, quick: 250, thorough: 8000},
			part{name: "u_c07", gen: genC07, monitors: []Monitor{mon}, labels: commonLabels, nontrivial: nt, quick: 250, thorough: 8000},
			part{name: "u_c10", gen: genC10, monitors: []Monitor{mon}, labels: commonLabels, nontrivial: nt, quick: 250, thorough: 8000},
			part{name: "u_c16app", gen: genC16App, monitors: []Monitor{mon}, labels: commonLabels, nontrivial: nt, quick: 150, thorough: 4000},
			part{name: "u_c05sim", gen: genC05Sim, monitors: []Monitor{mon}, labels: commonLabels, nontrivial: nt, quick: 30, thorough: 1000},
		)
	}
	addParts("C13", part{name: "u_srvdeadline", gen: genMixedSrvDeadline, monitors: []Monitor{monC13}, labels: commonLabels, nontrivial: ntMultiRPC, quick: 250, thorough: 8000})
	addParts("C14", part{name: "u_srvdeadline", gen: genMixedSrvDeadline, monitors: []Monitor{monC14}, labels: commonLabels, nontrivial: ntAbnormalEnd, quick: 250, thorough: 8000})
	union("C13", monC13, ntMultiRPC)
	union("C14", monC14, ntAbnormalEnd)
	addParts("C14", part{name: "u_rawsrv", gen: genRawServerShapes, monitors: []Monitor{monC14}, labels: labelsRaw, nontrivial: ntRawServer, quick: 300, thorough: 8000})
	addParts("C14", part{name: "u_c12win", gen: genC12Win, monitors: []Monitor{monC14}, labels: labelsC12Win, nontrivial: ntC12Win, quick: 600, thorough: 20000})
	addParts("C14", part{name: "u_c12", gen: genC12, monitors: []Monitor{monC14}, labels: labelsC12, nontrivial: func(c *Case, tr *Trace) bool { return len(c.Reg) > 3 }, quick: 250, thorough: 8000})
}

func init() {
	addParts("C07", part{name: "stress_cancel", gen: genStressCancel, exec: execStress, monitors: []Monitor{monStressSurvival("C07")}, labels: commonLabels, nontrivial: ntStress, quick: 120, thorough: 6000, race: true, procs: 16, shards: 4})
	addParts("C08", part{name: "stress_ids", gen: genStressCancel, exec: execStress, monitors: []Monitor{monStressSurvival("C08")}, labels: commonLabels, nontrivial: ntStress, quick: 120, thorough: 6000, race: true, procs: 16, shards: 4},
		part{name: "stress_mixed", gen: genStress, exec: execStress, monitors: []Monitor{monStressSurvival("C08")}, labels: commonLabels, nontrivial: ntStress, quick: 60, thorough: 3000, race: true, procs: 16, shards: 4})
}

var _ = strings.Join
