package harness

import (
	"fmt"

	"pgregory.net/rapid"
)

func victimOf(c *Case) int {
	for i := range c.RPCs {
		if c.RPCs[i].Role == "victim" {
			return i
		}
	}
	return -1
}

// genC07: 0-3 bystanders plus one victim RPC that is cancelled (or whose deadline expires) at a drawn frame boundary.
func genC07(t *rapid.T) *Case {
	c := &Case{Prop: "c07"}
	c.Cfg = genConfig(t, []string{"fwd", "fwd", "rev"})
	nb := rapid.IntRange(0, 3).Draw(t, "nbystanders")
	for i := 0; i < nb; i++ {
		c.RPCs = append(c.RPCs, genBystander(t, fmt.Sprintf("b%d", i)))
	}
	v := genBystander(t, "victim")
	v.Role = "victim"
	// give the victim something to be in the middle of
	if respStreams(v.Shape) && len(v.Resp) < 2 {
		v.Resp = append(v.Resp, 70000, 5)
		v.HOps = nil
		for i := range v.Resp {
			v.HOps = append(v.HOps, MDOp{Kind: "send", Idx: i})
		}
	}
	switch rapid.IntRange(0, 7).Draw(t, "victim.behaviour") {
	case 0:
		v.HWaitCtx = true
	case 1:
		v.StallRecv = true
	case 2:
		v.HStallRecv = true
	case 3:
		v.Code, v.Msg = 9, "victim's own failure"
	case 4:
		v.CallHeader = 1
	}
	v.TrlOpt = true
	v.CtxCause = rapid.IntRange(0, 2).Draw(t, "victim.cause") == 0
	v.HOps = append(v.HOps, MDOp{Kind: "settrl", MD: map[string][]string{"victim-trailer": {"1", "2"}}})
	pos := rapid.IntRange(0, len(c.RPCs)).Draw(t, "victim.pos")
	c.RPCs = append(c.RPCs[:pos], append([]RPC{v}, c.RPCs[pos:]...)...)
	k := rapid.IntRange(0, 60).Draw(t, "k")
	if rapid.IntRange(0, 2).Draw(t, "deadline") == 0 {
		c.RPCs[pos].Timeout = 50
		c.Events = []Event{{Kind: "advance", Ms: 100, After: k}}
	} else {
		c.Events = []Event{{Kind: "cancel_rpc", Target: pos, After: k}}
	}
	if rapid.IntRange(0, 2).Draw(t, "yield") == 0 {
		c.Yields = append(c.Yields, Yield{
			Point:  rapid.SampledFrom([]string{"server.finish.afterCancel", "client.cancel.afterFinish", "receiver.closure.afterWake", "client.finish.beforeTrailers", "server.halfClose.beforeReceiverClose", "receiver.dequeue.beforeCredit"}).Draw(t, "yield.point"),
			Nth:    rapid.IntRange(0, 4).Draw(t, "yield.nth"),
			Repeat: rapid.IntRange(1, 2).Draw(t, "yield.repeat"),
			Kind:   rapid.SampledFrom([]string{"gosched", "sleep"}).Draw(t, "yield.kind"),
		})
	}
	if rapid.IntRange(0, 3).Draw(t, "park_start") == 0 {
		// hold some RPC's start between id allocation and its first send, so that a cancellation can fall in between
		c.Yields = append(c.Yields, Yield{Point: "client.newStream.afterAlloc", Nth: rapid.IntRange(0, len(c.RPCs)-1).Draw(t, "park_start.nth"), Kind: "park"})
		// the cancellation strikes at a drawn scheduler step (early: while starts are still in progress)
		c.Events[0].After = rapid.IntRange(1, 20).Draw(t, "step_early")
		c.Events[0].AtStep = true
	}
	c.Tape = genTape(t, 0, 300)
	return c
}

// genC07Bounded: the cancellation falls while the calling end's direction of a bounded carrier is full but nobody is parked in
// it: the victim's call is a non-streaming Invoke (or a client stream) whose request exceeds the window and whose handler does
// not read, so that the caller waits for credit *in the library* right after its last admissible chunk went into the pipe.
// Ending the RPC at the caller must then not involve the carrier (whichever goroutine - the caller's own, through the failed
// send, or the context watcher - gets to finish the stream).
func genC07Bounded(t *rapid.T) *Case {
	c := genC07(t)
	c.Prop = "c07_bounded"
	c.Cfg.Cap = rapid.SampledFrom([]int{1, 1, 2}).Draw(t, "cap_bounded")
	if c.Cfg.ClientFC != "on" || c.Cfg.ServerFC != "on" {
		c.Cfg.ClientFC, c.Cfg.ServerFC = "on", "on"
	}
	c.Yields = nil
	vi := victimOf(c)
	v := &c.RPCs[vi]
	v.Shape = rapid.SampledFrom([]string{"unary", "unary", "cstream"}).Draw(t, "bv.shape")
	v.Via = ""
	v.Req = []int{rapid.SampledFrom([]int{70000, 100000, 150000}).Draw(t, "bv.req")}
	v.Resp = []int{5}
	v.HOps = []MDOp{{Kind: "settrl", MD: map[string][]string{"victim-trailer": {"1", "2"}}}}
	v.HWaitCtx, v.StallRecv, v.CallHeader, v.Code, v.Msg = false, false, 0, 0, ""
	v.HStallRecv = true
	c.Events[0].AtStep = false
	c.Events[0].After = rapid.IntRange(2, 14).Draw(t, "bk")
	return c
}

// expandC07: the cancel (and the deadline) at every frame boundary of the fault-free run.
func expandC07(c *Case, tr *Trace) []*Case {
	delivered := 0
	for _, f := range tr.Frames {
		if f.Delivered >= 0 {
			delivered++
		}
	}
	vi := victimOf(c)
	var out []*Case
	for _, deadline := range []bool{false, true} {
		for k := 0; k <= delivered; k++ {
			v := *c
			v.RPCs = append([]RPC{}, c.RPCs...)
			v.Prop = "c07_sweep"
			if deadline {
				v.RPCs[vi].Timeout = 50
				v.Events = []Event{{Kind: "advance", Ms: 100, After: k}}
			} else {
				v.RPCs[vi].Timeout = 0
				v.Events = []Event{{Kind: "cancel_rpc", Target: vi, After: k}}
			}
			out = append(out, &v)
		}
	}
	return out
}

func genC07Base(t *rapid.T) *Case {
	c := genC07(t)
	c.Events = nil
	c.RPCs[victimOf(c)].Timeout = 0
	return c
}

func monC07(c *Case, tr *Trace) []Violation {
	var vs []Violation
	vi := victimOf(c)
	if vi < 0 || tr.Aborted != "" || len(tr.Events) == 0 {
		return nil
	}
	ev, er := c.Events[0], tr.Events[0]
	wantCode := 1 // Canceled
	if ev.Kind == "advance" {
		wantCode = 4 // DeadlineExceeded
	}
	add := func(class string, step int, f string, a ...any) {
		vs = append(vs, Violation{Prop: "C07", Class: class, Step: step, Details: fmt.Sprintf("%s of rpc %d after %d frames (step %d): ", ev.Kind, vi, ev.After, er.Fired) + fmt.Sprintf(f, a...)})
	}
	for _, p := range tr.Panics {
		add("panic", 0, "%s", p)
	}
	sp := &c.RPCs[vi]
	drain2 := tr.PhaseStart["probe"]
	// --- others and the tunnel are unaffected (whether or not the cancel fired)
	for i := range c.RPCs {
		if c.RPCs[i].Role == "bystander" {
			if msg := bystanderComplete(c, tr, i, drain2); msg != "" {
				add("bystander_harmed", drain2, "bystander rpc %d (%s) did not complete normally: %s", i, c.RPCs[i].Shape, msg)
			}
		}
	}
	for _, t := range tr.Tunnels {
		if (t.DoneStep >= 0 && t.DoneStep < tr.PhaseStart["end"]) || (t.ServeReturned >= 0 && t.ServeReturned < tr.PhaseStart["end"]) {
			add("tunnel_killed", t.DoneStep, "tunnel %d ended (done@%d %q, serve@%d %q)", t.Idx, t.DoneStep, t.ChanErr, t.ServeReturned, t.ServeErr)
		}
	}
	if tr.Probe != nil && (!tr.Probe.Returned || tr.Probe.Code != CodeNil) {
		add("tunnel_unusable_afterwards", tr.Probe.Step, "a fresh unary RPC returned=%v code=%d %q", tr.Probe.Returned, tr.Probe.Code, tr.Probe.Err)
	}
	// nothing of the victim may hang either
	for _, o := range tr.Ops {
		if o.RPC == vi && o.Pending() {
			add("operation_never_returned", o.Start, "%s %s#%d never returned", o.Actor, o.Kind, o.Idx)
		}
	}
	if er.Fired < 0 || tr.Labels["advance_skipped"] > 0 {
		// (virtual time could not advance while goroutines waited for a mutex held by a parked goroutine:
		// the deadline never fired, so there is no cancellation to judge)
		return vs
	}
	started := false
	for _, o := range tr.Ops {
		if o.RPC == vi && (o.Kind == "start" || o.Kind == "invoke") && o.Start <= er.Fired {
			started = true
		}
	}
	if !started {
		return vs
	}
	// --- 1. local effect in the same step, without any frame
	// (not when the harness itself holds a goroutine at a park-type yield point: that is not the library waiting)
	parkArmed := false
	for _, y := range c.Yields {
		if y.Kind == "park" {
			parkArmed = true
		}
	}
	// (nor, on a bounded carrier, when some SendMsg of the calling end was parked inside the carrier at that moment: that
	// operation is governed by the carrier stream's context, and others may be queued behind it on the tunnel's send mutex.
	// With nothing parked there, a full pipe is no excuse: ending the RPC at the caller must not involve the carrier at all.)
	callerDir := C2S
	if c.Cfg.Dir == "rev" {
		callerDir = S2C
	}
	carrierExcuse := c.Cfg.Cap != 0 && (er.CapBlocked[callerDir] || (c.Cfg.Dir != "fwd" && c.Cfg.Dir != "rev"))
	if !carrierExcuse && !parkArmed {
		for _, o := range tr.Ops {
			if o.RPC != vi || o.Side != "caller" || o.Pending() {
				continue
			}
			if o.Start <= er.Fired && o.End > er.Fired && (o.Kind == "recv" || o.Kind == "send" || o.Kind == "header" || o.Kind == "invoke") {
				add("caller_not_released_immediately", o.End, "%s#%d was blocked at the cancellation step %d but returned only at step %d", o.Kind, o.Idx, er.Fired, o.End)
			}
			if o.Start <= er.Fired && o.End == er.Fired && o.Start < er.Fired && (o.Kind == "recv" || o.Kind == "invoke") && o.Code != wantCode {
				// it was blocked and was released by the cancellation: the result must be the cancellation status
				add("wrong_cancellation_status", o.End, "%s#%d released by the cancellation returned code %d (%s), want %d", o.Kind, o.Idx, o.Code, o.Err, wantCode)
			}
		}
	}
	// --- 2. once the cancel frame has reached the server, the handler is released
	ix := buildWireIndex(tr)
	if k, ok := ix.keyOf[vi]; ok && c.Cfg.Cap == 0 {
		for _, f := range ix.byStream[k] {
			if f.F.Kind != "cancel" || f.Received < 0 {
				continue
			}
			for _, inv := range tr.Invocations {
				if inv.RPC != vi || (inv.Returned >= 0 && inv.Returned <= f.Received) {
					continue
				}
				if inv.CtxDoneStep < 0 || inv.CtxDoneStep > f.Received {
					add("handler_context_not_cancelled", f.Received, "cancel frame processed by the server at step %d but the handler's context ended at step %d", f.Received, inv.CtxDoneStep)
				}
			}
			for _, o := range tr.Ops {
				if o.RPC == vi && o.Side == "handler" && o.Start <= f.Received && (o.Pending() || o.End > f.Received) && o.Kind != "return" {
					add("handler_not_released", f.Received, "handler %s#%d was blocked when the cancel frame was processed at step %d and returned at step %d", o.Kind, o.Idx, f.Received, o.End)
				}
			}
		}
	}
	// --- 2b. the notice is actually sent: a handler that was still running when its caller cancelled (no close frame emitted yet)
	// has its context ended by the time the run is drained - not only when the harness finally takes the tunnel down
	if k, ok := ix.keyOf[vi]; ok && !parkArmed {
		closeEmit := -1
		for _, f := range ix.byStream[k] {
			if f.F.Kind == "close" && closeEmit < 0 {
				closeEmit = f.Step
			}
		}
		endStep := tr.PhaseStart["end"]
		for _, inv := range tr.Invocations {
			if inv.RPC != vi || inv.Step > er.Fired || (inv.Returned >= 0 && inv.Returned <= er.Fired) || (closeEmit >= 0 && closeEmit <= er.Fired) {
				continue
			}
			if inv.CtxDoneStep < 0 || inv.CtxDoneStep >= endStep {
				add("handler_never_told", er.Fired, "the caller's context ended at step %d while the handler was running; the handler's context had still not ended when the drained run reached its end (step %d; it ended at %d): no cancel notice reached it", er.Fired, endStep, inv.CtxDoneStep)
			}
		}
	}
	// --- 3. exactly one of the two legal outcomes
	m := modelHandler(sp)
	hsOK := 0
	for _, o := range tr.Ops {
		if o.RPC == vi && o.Side == "handler" && o.Kind == "send" && !o.Pending() && o.Code == CodeNil {
			hsOK++
		}
	}
	gotResp := 0
	for _, o := range tr.Ops {
		if o.RPC != vi || o.Side != "caller" || o.Pending() {
			continue
		}
		if o.Kind == "recv" && o.Code == CodeNil {
			gotResp++
			continue
		}
		terminal := (o.Kind == "recv" && o.Code != CodeNil) || o.Kind == "invoke"
		if !terminal {
			continue
		}
		switch {
		case o.Code == CodeEOF || (o.Kind == "invoke" && o.Code == CodeNil):
			// success: must be complete
			if sp.Code != 0 {
				add("mixed_outcome", o.End, "caller saw OK although the handler returns code %d", sp.Code)
			}
			if o.Kind == "recv" && respStreams(sp.Shape) && gotResp < hsOK {
				add("mixed_outcome", o.End, "caller saw OK after %d responses; the handler sent %d", gotResp, hsOK)
			}
			if o.TrailerNow != nil && !mdEqual(o.TrailerNow, m.trl) {
				add("mixed_outcome", o.End, "caller saw OK but Trailer() = %s; handler set %s", mdString(o.TrailerNow), mdString(m.trl))
			}
			if o.TrailerOptNow != nil && !mdEqual(o.TrailerOptNow, m.trl) {
				add("mixed_outcome", o.End, "caller saw OK but the grpc.Trailer target = %s; handler set %s", mdString(o.TrailerOptNow), mdString(m.trl))
			}
		case o.Code == wantCode:
		case sp.Code != 0 && o.Code == sp.Code:
			// the handler's own status won the race
			if o.TrailerNow != nil && !mdEqual(o.TrailerNow, m.trl) {
				add("mixed_outcome", o.End, "caller saw the handler's status but Trailer() = %s; handler set %s", mdString(o.TrailerNow), mdString(m.trl))
			}
		default:
			add("illegal_outcome", o.End, "caller's terminal result is code %d (%s); legal: OK-with-everything, %d, or the handler's own status %d", o.Code, o.Err, wantCode, sp.Code)
		}
		break
	}
	return vs
}

// ntC07: the cancellation fell strictly inside the victim's frame sequence, or raced with close_stream.
func ntC07(c *Case, tr *Trace) bool {
	vi := victimOf(c)
	if vi < 0 || len(tr.Events) == 0 || tr.Events[0].Fired < 0 {
		return false
	}
	fired := tr.Events[0].Fired
	k, ok := buildWireIndex(tr).keyOf[vi]
	if !ok {
		return false
	}
	before, after, closeInFlight := false, false, false
	for _, f := range buildWireIndex(tr).byStream[k] {
		if f.Step < fired {
			before = true
		}
		if f.Step > fired || (f.Delivered > fired) {
			after = true
		}
		if f.F.Kind == "close" && f.Step <= fired && (f.Received < 0 || f.Received > fired) {
			closeInFlight = true
		}
	}
	return (before && after) || closeInFlight
}

func labelsC07(c *Case, tr *Trace) []string {
	ls := commonLabels(c, tr)
	vi := victimOf(c)
	if vi < 0 || len(tr.Events) == 0 || tr.Events[0].Fired < 0 {
		return ls
	}
	fired := tr.Events[0].Fired
	if k, ok := buildWireIndex(tr).keyOf[vi]; ok {
		late := 0
		for _, f := range buildWireIndex(tr).byStream[k] {
			if !f.F.ToServer && f.Received > fired {
				late++
			}
			if f.F.Kind == "close" && f.Step <= fired && (f.Received < 0 || f.Received > fired) {
				ls = append(ls, "cancel_raced_with_close")
			}
		}
		if late > 0 {
			ls = append(ls, "late_frames_for_finished_stream")
		}
	}
	for _, o := range tr.Ops {
		if o.RPC == vi && o.Side == "caller" && o.Start < fired && o.End == fired {
			ls = append(ls, "released="+o.Kind)
		}
	}
	if c.Cfg.Cap != 0 && (c.Cfg.Dir == "fwd" || c.Cfg.Dir == "rev") {
		// bounded carrier: was the same-step clause in force (nothing of the calling end parked inside the carrier), and was the
		// calling end's direction of the pipe actually full then (a frame emitted before the event, delivered only after it)?
		callerDir := C2S
		if c.Cfg.Dir == "rev" {
			callerDir = S2C
		}
		if tr.Events[0].CapBlocked[callerDir] {
			ls = append(ls, "bounded:carrier_send_parked_at_event")
		} else {
			queued := 0
			for _, f := range tr.Frames {
				if f.SendErr == "" && f.Stream == 0 && f.Dir == callerDir && f.Step <= fired && (f.Delivered < 0 || f.Delivered > fired) {
					queued++
				}
			}
			if queued >= c.Cfg.Cap {
				ls = append(ls, "bounded:pipe_full_nobody_parked_at_event")
			} else {
				ls = append(ls, "bounded:pipe_has_room_at_event")
			}
		}
	}
	return ls
}
