package harness

import (
	"pgregory.net/rapid"
)

// Single-mutation sweep over raw-client conversations (C09, thorough tier mostly): a conforming conversation is drawn, run
// once, and then EVERY position of its frame list is hit with EVERY mutation of a fixed set - one mutation per variant. The
// validator model re-derives from the mutated frames whether the result is a tunnel-level violation; the streams the mutation
// did not touch must still complete with their scripted results, the touched one is held to the crash / hang / leak / bloat
// clauses only.

var rawSweepOps = []string{
	"drop", "dup", "swap_next", "to_nil", "msg_more_flip", "id_unknown", "id_negative", "id_other_stream", "size_plus", "size_minus", "size_huge",
	"insert_nil", "insert_cancel", "insert_half_close", "insert_window_zero", "insert_window_max", "insert_new_stream_same_id", "insert_more", "insert_msg",
}

// genRawSweepBase: a conforming raw-client conversation (no deviation), small enough to sweep.
func genRawSweepBase(t *rapid.T) *Case {
	c := genRawClientWith(t, rawClientDeviations, 0)
	c.Prop = "raw_client_sweep"
	c.Tape = nil // fair draining: the sweep varies the frames, not the schedule
	return c
}

func expandRawSweep(c *Case, tr *Trace) []*Case {
	base := c.Raw
	if base == nil || len(base.Frames) == 0 || len(base.Frames) > 60 {
		return nil
	}
	// the closing probe stream: the last new_stream of the script
	probeID, probeAt := int64(-1), -1
	for i, f := range base.Frames {
		if f.Kind == "new_stream" {
			probeID, probeAt = f.ID, i
		}
	}
	var otherID = func(id int64) int64 {
		for _, f := range base.Frames {
			if f.Kind == "new_stream" && f.ID != id && f.ID != probeID {
				return f.ID
			}
		}
		return id + 1000
	}
	var out []*Case
	for i := 0; i < probeAt; i++ { // the probe's own frames stay intact
		for _, op := range rawSweepOps {
			fs := append([]RawFrame(nil), base.Frames...)
			f := fs[i]
			touched := map[int64]bool{f.ID: true}
			ins := func(at int, nf RawFrame) {
				fs = append(fs[:at], append([]RawFrame{nf}, fs[at:]...)...)
			}
			switch op {
			case "drop":
				fs = append(fs[:i], fs[i+1:]...)
			case "dup":
				ins(i, f)
			case "swap_next":
				if i+1 >= probeAt {
					continue
				}
				fs[i], fs[i+1] = fs[i+1], fs[i]
				touched[fs[i].ID] = true
			case "to_nil":
				fs[i] = RawFrame{ID: f.ID, Tag: f.Tag, Kind: "nil"}
			case "msg_more_flip":
				switch f.Kind {
				case "msg":
					fs[i].Kind = "more"
				case "more":
					fs[i].Kind, fs[i].Size = "msg", uint32(f.DataLen)
				default:
					continue
				}
			case "id_unknown":
				fs[i].ID = 1 << 40
			case "id_negative":
				fs[i].ID = -7
			case "id_other_stream":
				fs[i].ID = otherID(f.ID)
				touched[fs[i].ID] = true
			case "size_plus":
				if f.Kind != "msg" {
					continue
				}
				fs[i].Size++
			case "size_minus":
				if f.Kind != "msg" || f.Size == 0 {
					continue
				}
				fs[i].Size--
			case "size_huge":
				if f.Kind != "msg" {
					continue
				}
				fs[i].Size = hugeDeclared
			case "insert_nil":
				ins(i, RawFrame{ID: f.ID, Tag: f.Tag, Kind: "nil"})
			case "insert_cancel":
				ins(i, RawFrame{ID: f.ID, Tag: f.Tag, Kind: "cancel"})
			case "insert_half_close":
				ins(i, RawFrame{ID: f.ID, Tag: f.Tag, Kind: "half_close"})
			case "insert_window_zero":
				ins(i, RawFrame{ID: f.ID, Tag: f.Tag, Kind: "window_update", Size: 0})
			case "insert_window_max":
				ins(i, RawFrame{ID: f.ID, Tag: f.Tag, Kind: "window_update", Size: 1<<32 - 1})
			case "insert_new_stream_same_id":
				ins(i, RawFrame{ID: f.ID, Tag: f.Tag, Kind: "new_stream", Method: "/verif.Svc/Unary", Rev: f.Rev, Window: f.Window})
			case "insert_more":
				ins(i, RawFrame{ID: f.ID, Tag: f.Tag, Kind: "more", DataLen: 5, Zeros: true})
			case "insert_msg":
				ins(i, RawFrame{ID: f.ID, Tag: f.Tag, Kind: "msg", Size: 5, DataLen: 5, Zeros: true})
			}
			v := *c
			r := *base
			r.Frames = fs
			r.Dev = []string{"sweep:" + op}
			r.Expect = nil
			tagTouched := map[int]bool{}
			for _, bf := range base.Frames {
				if touched[bf.ID] {
					tagTouched[bf.Tag] = true
				}
			}
			if touched[probeID] {
				continue // would disturb the probe: a different experiment
			}
			for _, ex := range base.Expect {
				e := ex
				if tagTouched[ex.Tag] {
					e.Clean, e.Code, e.Why = false, 0, "sweep:"+op
				}
				r.Expect = append(r.Expect, e)
			}
			r.TunnelLevel = ""
			if idx, unknown := tunnelLevelModel(fs); idx >= 0 {
				r.TunnelLevel = "sweep:" + op
				if unknown {
					r.TunnelLevel = "?"
				}
			}
			v.Raw = &r
			v.Prop = "raw_client_sweep"
			out = append(out, &v)
		}
	}
	return out
}

func ntRawSweep(c *Case, tr *Trace) bool {
	return c.Raw != nil && len(c.Raw.Dev) == 1 // a mutated variant (the base conversation itself has no deviation)
}

// --- the same for the server role: every position of every reply program, one mutation per variant

var rawServerSweepOps = []string{
	"drop", "dup", "swap_next", "to_nil", "msg_more_flip", "id_unknown", "size_plus", "size_minus", "size_huge",
	"insert_nil", "insert_headers", "insert_close", "insert_window_zero", "insert_window_max", "insert_more", "insert_msg", "insert_settings",
}

func genRawServerSweepBase(t *rapid.T) *Case {
	c := genRawServerWith(t, rawServerDeviations, 0, nil)
	c.Prop = "raw_server_sweep"
	c.Tape = nil
	return c
}

func expandRawServerSweep(c *Case, tr *Trace) []*Case {
	base := c.Raw
	if base == nil || len(base.Replies) < 2 {
		return nil
	}
	var out []*Case
	for ri := 0; ri < len(base.Replies)-1; ri++ { // the last reply program answers the probe RPC and stays intact
		rp := base.Replies[ri]
		if len(rp.Frames) > 40 {
			continue
		}
		for i := 0; i <= len(rp.Frames); i++ {
			for _, op := range rawServerSweepOps {
				fs := append([]RawFrame(nil), rp.Frames...)
				ins := func(at int, nf RawFrame) {
					nf.Tag = rp.Tag
					fs = append(fs[:at], append([]RawFrame{nf}, fs[at:]...)...)
				}
				tunnelLevel := ""
				if i == len(rp.Frames) && !hasPrefix(op, "insert_") {
					continue
				}
				switch op {
				case "drop":
					fs = append(fs[:i], fs[i+1:]...)
				case "dup":
					ins(i, fs[i])
				case "swap_next":
					if i+1 >= len(fs) {
						continue
					}
					fs[i], fs[i+1] = fs[i+1], fs[i]
				case "to_nil":
					fs[i] = RawFrame{Tag: rp.Tag, Kind: "nil"}
				case "msg_more_flip":
					switch fs[i].Kind {
					case "msg":
						fs[i].Kind = "more"
					case "more":
						fs[i].Kind, fs[i].Size = "msg", uint32(fs[i].DataLen)
					default:
						continue
					}
				case "id_unknown":
					fs[i].ForceID, fs[i].ID = true, 1<<40
					tunnelLevel = "frame_unknown_id"
				case "size_plus":
					if fs[i].Kind != "msg" {
						continue
					}
					fs[i].Size++
				case "size_minus":
					if fs[i].Kind != "msg" || fs[i].Size == 0 {
						continue
					}
					fs[i].Size--
				case "size_huge":
					if fs[i].Kind != "msg" {
						continue
					}
					fs[i].Size = hugeDeclared
				case "insert_nil":
					ins(i, RawFrame{Kind: "nil"})
				case "insert_headers":
					ins(i, RawFrame{Kind: "headers", MD: map[string][]string{"again": {"1"}}})
				case "insert_close":
					ins(i, RawFrame{Kind: "close", Code: 13, Text: "inserted"})
				case "insert_window_zero":
					ins(i, RawFrame{Kind: "window_update", Size: 0})
				case "insert_window_max":
					ins(i, RawFrame{Kind: "window_update", Size: 1<<32 - 1})
				case "insert_more":
					ins(i, RawFrame{Kind: "more", DataLen: 5, Zeros: true, NoWindow: true})
				case "insert_msg":
					ins(i, RawFrame{Kind: "msg", Size: 5, DataLen: 5, Zeros: true, NoWindow: true})
				case "insert_settings":
					ins(i, RawFrame{Kind: "settings", Revs: []int32{0, 1}, Window: 65536})
				}
				v := *c
				r := *base
				r.Replies = append([]RawReply(nil), base.Replies...)
				r.Replies[ri] = RawReply{Tag: rp.Tag, Frames: fs}
				r.Dev = []string{"sweep:" + op}
				r.Expect = nil
				for _, ex := range base.Expect {
					e := ex
					if ex.Tag == rp.Tag {
						e.Clean, e.Code, e.Why = false, 0, "sweep:"+op
					}
					r.Expect = append(r.Expect, e)
				}
				r.TunnelLevel = tunnelLevel
				v.Raw = &r
				v.Prop = "raw_server_sweep"
				out = append(out, &v)
			}
		}
	}
	return out
}

func hasPrefix(s, p string) bool { return len(s) >= len(p) && s[:len(p)] == p }
