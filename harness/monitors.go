package harness

import (
	"fmt"
	"sort"
	"strconv"
	"strings"
)

// streamKey identifies one tunneled stream on the wire.
type streamKey struct {
	carrier int
	id      int64
}

// wireIndex is a per-trace index over the tap, built once and shared by monitors.
type wireIndex struct {
	tr       *Trace
	byStream map[streamKey][]*FrameRec
	keys     []streamKey
	rpcOf    map[streamKey]int // from the x-verif-rpc tag on new_stream
	keyOf    map[int]streamKey
	settings map[int]*FrameRec // per carrier: the settings frame (if any)
	carriers []int
}

func buildWireIndex(tr *Trace) *wireIndex {
	ix := &wireIndex{tr: tr, byStream: map[streamKey][]*FrameRec{}, rpcOf: map[streamKey]int{}, keyOf: map[int]streamKey{}, settings: map[int]*FrameRec{}}
	seenCar := map[int]bool{}
	for _, f := range tr.Frames {
		if f.F == nil {
			continue
		}
		if !seenCar[f.Stream] {
			seenCar[f.Stream] = true
			ix.carriers = append(ix.carriers, f.Stream)
		}
		if f.F.Kind == "settings" && f.SendErr == "" {
			if _, ok := ix.settings[f.Stream]; !ok {
				ix.settings[f.Stream] = f
			}
		}
		k := streamKey{f.Stream, f.F.ID}
		if _, ok := ix.byStream[k]; !ok {
			ix.keys = append(ix.keys, k)
		}
		ix.byStream[k] = append(ix.byStream[k], f)
		if f.F.Kind == "new_stream" && f.SendErr == "" {
			if v := f.F.MD[tagKey]; len(v) > 0 {
				if n, err := strconv.Atoi(v[0]); err == nil {
					if _, dup := ix.rpcOf[k]; !dup {
						ix.rpcOf[k] = n
						if _, d2 := ix.keyOf[n]; !d2 {
							ix.keyOf[n] = k
						}
					}
				}
			}
		}
	}
	return ix
}

func opsOf(tr *Trace, rpc int, side, kind string) []*OpRec {
	var out []*OpRec
	for _, o := range tr.Ops {
		if o.RPC == rpc && o.Side == side && o.Kind == kind {
			out = append(out, o)
		}
	}
	return out
}

func wireSize(payload int) int {
	if payload == 0 {
		return 0
	}
	n := 1
	for v := payload; v >= 0x80; v >>= 7 {
		n++
	}
	return 1 + n + payload
}

// ---------------------------------------------------------------------------
// C01: messages exactly once, in order, intact, on the right RPC

func monC01(c *Case, tr *Trace) []Violation {
	var vs []Violation
	add := func(class string, step int, f string, a ...any) {
		vs = append(vs, Violation{Prop: "C01", Class: class, Step: step, Details: fmt.Sprintf(f, a...)})
	}
	for i := range c.RPCs {
		sp := &c.RPCs[i]
		// ---- requests: caller -> handler
		var sendsStarted, sendsOK, lastSendStart int
		closeSendStart := -1
		for _, o := range tr.Ops {
			if o.RPC != i || o.Side != "caller" {
				continue
			}
			switch o.Kind {
			case "send":
				if o.Idx < len(sp.Req) {
					sendsStarted++
					if !o.Pending() && o.Code == CodeNil {
						sendsOK++
					}
					lastSendStart = o.Start
				}
			case "closesend":
				closeSendStart = o.Start
			case "invoke":
				sendsStarted, sendsOK = 1, 1
				closeSendStart = o.Start
			}
		}
		_ = lastSendStart
		got := 0
		for _, o := range tr.Ops {
			if o.RPC != i || o.Side != "handler" || o.Kind != "recv" || o.Pending() || o.Abandoned {
				continue
			}
			switch o.Code {
			case CodeNil:
				if o.Payload == nil {
					continue
				}
				if !o.Payload.OK {
					add(o.Payload.Class, o.End, "rpc %d: handler Recv #%d obtained %s; caller submitted sizes %v", i, got, o.Payload, sp.Req)
				} else if got >= sendsStarted {
					add("fabricated_message", o.End, "rpc %d: handler Recv #%d obtained a message although the caller had submitted only %d", i, got, sendsStarted)
				}
				got++
			case CodeEOF:
				if closeSendStart < 0 || closeSendStart > o.End {
					add("premature_end_of_stream", o.End, "rpc %d: handler saw end-of-stream but the caller had not half-closed (closesend started at %d)", i, closeSendStart)
				} else if got < sendsOK {
					add("lost_message", o.End, "rpc %d: handler saw end-of-stream after %d messages; caller sent %d successfully", i, got, sendsOK)
				}
			}
		}
		// ---- responses: handler -> caller
		var hsStarted, hsOK int
		for _, o := range tr.Ops {
			if o.RPC != i || o.Side != "handler" {
				continue
			}
			switch o.Kind {
			case "send":
				if o.Idx < len(sp.Resp) {
					hsStarted++
					if !o.Pending() && o.Code == CodeNil {
						hsOK++
					}
				}
			case "return":
				if sp.Shape == "unary" && o.Code == CodeNil {
					hsStarted, hsOK = 1, 1
				}
			}
		}
		cgot := 0
		toldOK := false
		for _, o := range tr.Ops {
			if o.RPC != i || o.Side != "caller" || o.Pending() {
				continue
			}
			switch o.Kind {
			case "recv":
				if o.Code == CodeEOF {
					toldOK = true
				}
				switch o.Code {
				case CodeNil:
					if o.Payload == nil {
						continue
					}
					if !o.Payload.OK {
						add(o.Payload.Class, o.End, "rpc %d: caller Recv #%d obtained %s; handler submitted sizes %v", i, cgot, o.Payload, sp.Resp)
					} else if cgot >= hsStarted {
						add("fabricated_message", o.End, "rpc %d: caller Recv #%d obtained a message although the handler had submitted only %d", i, cgot, hsStarted)
					}
					cgot++
				case CodeEOF:
					if cgot < hsOK {
						add("lost_message", o.End, "rpc %d: caller saw OK after %d messages; handler sent %d successfully", i, cgot, hsOK)
					}
				}
			case "recv_again":
				// (the caller had been told the RPC ended; whatever it is handed now was never part of the sequence)
				if o.Code == CodeNil && toldOK {
					add("message_after_end_of_rpc", o.End, "rpc %d: a Recv after the caller had been told the RPC ended normally returned a message and a nil error (the caller had obtained %d messages, the handler submitted %d)", i, cgot, hsStarted)
				}
			case "invoke":
				if o.Code == CodeNil {
					if o.Payload == nil || !o.Payload.OK {
						add("corrupted_message", o.End, "rpc %d: Invoke returned OK with response %v; expected sizes %v", i, o.Payload, sp.Resp)
					} else if hsStarted < 1 {
						add("fabricated_message", o.End, "rpc %d: Invoke returned a response the handler never submitted", i)
					}
				}
			}
		}
	}
	return vs
}

// ---------------------------------------------------------------------------
// C13: emitted frames conform to the protocol

type c13Opts struct {
	settingsFirst bool
}

// handlerSendFailed: the handler of the RPC on this stream was told that one of its sends failed (its RPC had been
// cancelled, say). If it returns OK all the same, the truncated message before the OK close is the application's doing.
func handlerSendFailed(tr *Trace, ix *wireIndex, k streamKey) bool {
	rpc, ok := ix.rpcOf[k]
	if !ok {
		return false
	}
	for _, o := range tr.Ops {
		if o.RPC == rpc && o.Side == "handler" && o.Kind == "send" && !o.Pending() && o.Code != CodeNil {
			return true
		}
	}
	return false
}

func monC13(c *Case, tr *Trace) []Violation {
	var vs []Violation
	add := func(class string, step int, f string, a ...any) {
		vs = append(vs, Violation{Prop: "C13", Class: class, Step: step, Details: fmt.Sprintf(f, a...)})
	}
	ix := buildWireIndex(tr)
	const chunkMax = 16384
	// which carriers were ended from outside before the final "end" phase
	endStep := tr.PhaseStart["end"]
	carrierFault := map[int]int{}
	for i, ev := range tr.Events {
		if ev.Fired < 0 || i >= len(c.Events) {
			continue
		}
		switch ev.Kind {
		case "close_channel", "handler_close", "cancel_open", "expire_open", "break_client", "break_server", "break_both", "stop":
			car := -1
			if ev.Kind == "stop" {
				for _, t := range tr.Tunnels {
					car = t.Carrier
					if _, ok := carrierFault[car]; !ok || carrierFault[car] > ev.Fired {
						carrierFault[car] = ev.Fired
					}
				}
				continue
			}
			tgt := c.Events[i].Target
			if tgt < len(tr.Tunnels) {
				car = tr.Tunnels[tgt].Carrier
			}
			if cur, ok := carrierFault[car]; !ok || cur > ev.Fired {
				carrierFault[car] = ev.Fired
			}
		}
	}
	tunnelEndedBefore := func(car, step int) bool {
		if s, ok := carrierFault[car]; ok && s <= step {
			return true
		}
		for _, t := range tr.Tunnels {
			if t.Carrier == car {
				if t.DoneStep >= 0 && t.DoneStep <= step {
					return true
				}
				if t.ServeReturned >= 0 && t.ServeReturned <= step {
					return true
				}
			}
		}
		return false
	}

	// settings: when negotiated, first server frame, id -1
	for _, car := range ix.carriers {
		var first *FrameRec
		for _, f := range tr.Frames {
			if f.Stream == car && f.F != nil && !f.F.ToServer && f.SendErr == "" {
				first = f
				break
			}
		}
		if sf, ok := ix.settings[car]; ok {
			if sf.F.ID != -1 {
				add("settings_bad_id", sf.Step, "carrier %d: settings frame with stream id %d", car, sf.F.ID)
			}
			rawClientNoWait := c.Raw != nil && c.Raw.Role == "client" && !c.Raw.WaitSettings
			if first != sf && !rawClientNoWait {
				add("settings_not_first", sf.Step, "carrier %d: first server frame was %s, settings came later", car, first.F)
			}
			n := 0
			for _, f := range tr.Frames {
				if f.Stream == car && f.F != nil && f.F.Kind == "settings" && f.SendErr == "" {
					n++
				}
			}
			if n > 1 {
				add("settings_repeated", sf.Step, "carrier %d: %d settings frames", car, n)
			}
		}
	}

	// a client never emits a frame for a stream it has not announced with new_stream
	if c.Raw == nil || c.Raw.Role != "client" {
		announced := map[streamKey]bool{}
		for _, f := range tr.Frames {
			if f.F == nil || !f.F.ToServer || f.SendErr != "" {
				continue
			}
			k := streamKey{f.Stream, f.F.ID}
			if f.F.Kind == "new_stream" {
				announced[k] = true
			} else if !announced[k] {
				add("frame_for_unannounced_stream", f.Step, "carrier %d: %s emitted for a stream id whose new_stream was never sent", f.Stream, f.F)
				announced[k] = true
			}
		}
	}
	for _, k := range ix.keys {
		if k.id == -1 {
			continue
		}
		frames := ix.byStream[k]
		type dirState struct {
			inMsg     bool
			want, got int
			msgStep   int
			headers   int
			msgs      int
		}
		var up, down dirState
		halfClose, cancel, closeN := 0, 0, 0
		var closeFrame *FrameRec
		afterClose := 0
		newStreamRecv := -1
		abortedAt := -1 // step at which the stream was aborted from outside (cancel sent, non-OK close, tunnel end)
		for _, f := range frames {
			if f.SendErr != "" {
				continue
			}
			t := f.F
			st := &down
			if t.ToServer {
				st = &up
			}
			switch t.Kind {
			case "new_stream":
				newStreamRecv = f.Received
			case "msg", "more":
				if t.DataLen > chunkMax {
					add("oversized_chunk", f.Step, "carrier %d stream %d: %s carries %d bytes (> %d)", k.carrier, k.id, t, t.DataLen, chunkMax)
				}
				if t.Kind == "msg" {
					if st.inMsg {
						add("message_interleaved", f.Step, "carrier %d stream %d: new message frame while previous message incomplete (%d/%d)", k.carrier, k.id, st.got, st.want)
					}
					st.inMsg, st.want, st.got, st.msgStep = true, int(t.Size), t.DataLen, f.Step
					st.msgs++
				} else {
					if !st.inMsg {
						add("continuation_without_message", f.Step, "carrier %d stream %d: %s without an open message", k.carrier, k.id, t)
					}
					st.got += t.DataLen
				}
				if st.inMsg && st.got > st.want {
					add("message_size_mismatch", f.Step, "carrier %d stream %d: chunks add up to %d > declared size %d", k.carrier, k.id, st.got, st.want)
				}
				if st.inMsg && st.got == st.want {
					st.inMsg = false
				}
				if t.ToServer && halfClose > 0 {
					add("data_after_half_close", f.Step, "carrier %d stream %d: request data after half_close", k.carrier, k.id)
				}
				if !t.ToServer && closeN > 0 {
					afterClose++
				}
			case "headers":
				st.headers++
				if st.headers > 1 {
					add("headers_repeated", f.Step, "carrier %d stream %d: response headers sent %d times", k.carrier, k.id, st.headers)
				}
				if st.msgs > 0 {
					add("headers_after_message", f.Step, "carrier %d stream %d: response headers after a response message", k.carrier, k.id)
				}
				if closeN > 0 {
					afterClose++
				}
			case "half_close":
				halfClose++
				if halfClose > 1 {
					add("half_close_repeated", f.Step, "carrier %d stream %d: half_close sent %d times", k.carrier, k.id, halfClose)
				}
				if up.inMsg {
					add("message_truncated", f.Step, "carrier %d stream %d: half_close while a request message was incomplete (%d/%d)", k.carrier, k.id, up.got, up.want)
				}
			case "cancel":
				cancel++
				if cancel > 1 {
					add("cancel_repeated", f.Step, "carrier %d stream %d: cancel sent %d times", k.carrier, k.id, cancel)
				}
				if abortedAt < 0 {
					abortedAt = f.Step
				}
			case "close":
				closeN++
				if closeN > 1 {
					add("close_repeated", f.Step, "carrier %d stream %d: close_stream sent %d times", k.carrier, k.id, closeN)
				}
				closeFrame = f
				// (not for a nested tunnel's own carrier stream: there the "application" is the inner tunnel server, whose
				// serving call legitimately returns while handler goroutines of the inner tunnel may still be inside a send)
				if down.inMsg && t.Code == 0 && !isTunnelStream(frames) && !handlerSendFailed(tr, ix, k) {
					add("message_truncated", f.Step, "carrier %d stream %d: OK close while a response message was incomplete (%d/%d)", k.carrier, k.id, down.got, down.want)
				}
			case "window_update":
				if !t.ToServer && closeN > 0 {
					afterClose++
				}
			}
		}
		// exactly one close frame for every stream the server received, by the drained end
		if newStreamRecv >= 0 && newStreamRecv < endStep && closeN == 0 && !tunnelEndedBefore(k.carrier, endStep) && c.Raw == nil {
			// the stream may legitimately still be open if its handler never returned (pending op)
			rpc, tagged := ix.rpcOf[k]
			stillOpen := false
			if tagged {
				for _, inv := range tr.Invocations {
					if inv.RPC == rpc && (inv.Returned < 0 || inv.Returned >= endStep) {
						stillOpen = true // its handler had not returned when the harness began to end the tunnels
					}
				}
			}
			if !stillOpen {
				add("close_missing", endStep, "carrier %d stream %d: server received new_stream at step %d but no close_stream was emitted by the drained end", k.carrier, k.id, newStreamRecv)
			}
		}
		// close is the last frame of a stream the handler ended
		if closeFrame != nil && afterClose > 0 {
			if rpc, ok := ix.rpcOf[k]; ok {
				handlerEnded := false
				for _, inv := range tr.Invocations {
					if inv.RPC == rpc && inv.Returned >= 0 && (inv.CtxDoneStep < 0 || inv.CtxDoneStep >= inv.Returned) {
						handlerEnded = true
					}
				}
				abandoned := false
				for _, o := range tr.Ops {
					if o.RPC == rpc && o.Abandoned {
						abandoned = true
					}
				}
				if handlerEnded && !abandoned {
					add("frame_after_close", closeFrame.Step, "carrier %d stream %d: %d server frame(s) after close_stream of a stream the handler ended", k.carrier, k.id, afterClose)
				}
			}
		}
	}
	return vs
}

// ---------------------------------------------------------------------------
// C06 (sender side): windows respected; credit never exceeds consumption

func monC06Sender(c *Case, tr *Trace) []Violation {
	var vs []Violation
	add := func(class string, step int, f string, a ...any) {
		vs = append(vs, Violation{Prop: "C06", Class: class, Step: step, Details: fmt.Sprintf(f, a...)})
	}
	ix := buildWireIndex(tr)
	for _, k := range ix.keys {
		if k.id == -1 {
			continue
		}
		frames := ix.byStream[k]
		var ns *FrameRec
		for _, f := range frames {
			if f.F.Kind == "new_stream" && f.SendErr == "" {
				ns = f
				break
			}
		}
		if ns == nil || ns.F.Revision != 1 {
			continue
		}
		sf := ix.settings[k.carrier]
		if sf == nil {
			continue
		}
		win := map[bool]int64{true: int64(sf.F.Window), false: int64(ns.F.Window)} // key: data direction toServer
		for _, toServer := range []bool{true, false} {
			var sent, creditEmitted int64
			type cr struct {
				recv int
				n    int64
			}
			var credits []cr
			for _, f := range frames {
				if f.SendErr != "" {
					continue
				}
				if f.F.Kind == "window_update" && f.F.ToServer != toServer {
					credits = append(credits, cr{f.Received, int64(f.F.Size)})
				}
			}
			for _, f := range frames {
				if f.SendErr != "" || f.F.ToServer != toServer {
					continue
				}
				if f.F.Kind != "msg" && f.F.Kind != "more" {
					continue
				}
				if f.F.DataLen > 16384 {
					add("oversized_chunk", f.Step, "carrier %d stream %d: data frame of %d bytes", k.carrier, k.id, f.F.DataLen)
				}
				sent += int64(f.F.DataLen)
				var credit int64
				for _, x := range credits {
					if x.recv >= 0 && x.recv <= f.Step {
						credit += x.n
					}
				}
				if sent-credit > win[toServer] {
					add("window_exceeded_by_sender", f.Step, "carrier %d stream %d toServer=%v: %d bytes sent, %d credit received by step %d, advertised window %d", k.carrier, k.id, toServer, sent, credit, f.Step, win[toServer])
					break
				}
			}
			// credit emitted by the receiver of this direction vs. what its application consumed
			rpc, tagged := ix.rpcOf[k]
			if !tagged || rpc >= len(c.RPCs) {
				continue
			}
			sp := &c.RPCs[rpc]
			sizes, side := sp.Req, "handler"
			if !toServer {
				sizes, side = sp.Resp, "caller"
			}
			for _, f := range frames {
				if f.SendErr != "" || f.F.Kind != "window_update" || f.F.ToServer == toServer {
					continue
				}
				creditEmitted += int64(f.F.Size)
				// consumed so far
				var consumed int64
				n := 0
				inProgress := 0 // reads under way in the step of the frame (several for an actor that runs its operations back to back)
				for _, o := range tr.Ops {
					if o.RPC != rpc || o.Side != side {
						continue
					}
					if o.Kind != "recv" && o.Kind != "invoke" && o.Kind != "recv_again" {
						continue
					}
					if o.Start > f.Step {
						continue
					}
					if o.Pending() || o.End >= f.Step {
						inProgress++
						continue
					}
					if o.Code == CodeNil && n < len(sizes) {
						consumed += int64(wireSize(sizes[n]))
						n++
					}
				}
				if inProgress > 0 {
					// the messages under assembly (and, on a non-streaming side, the look-ahead) may be consumed too
					for j := n; j < len(sizes) && j < n+inProgress+1; j++ {
						consumed += int64(wireSize(sizes[j]))
					}
				}
				if creditEmitted > consumed {
					add("credit_exceeds_consumption", f.Step, "carrier %d stream %d toServer=%v: %d bytes of credit emitted by step %d, application consumed at most %d", k.carrier, k.id, toServer, creditEmitted, f.Step, consumed)
					break
				}
			}
		}
	}
	return vs
}

// ---------------------------------------------------------------------------
// C14: nothing left behind

func monC14(c *Case, tr *Trace) []Violation {
	var vs []Violation
	add := func(class string, step int, f string, a ...any) {
		vs = append(vs, Violation{Prop: "C14", Class: class, Step: step, Details: fmt.Sprintf(f, a...)})
	}
	if tr.Aborted != "" {
		return nil
	}
	var base *Snapshot
	for _, sn := range tr.Snapshots {
		if sn.Phase == "established" {
			base = sn
		}
	}
	ix := buildWireIndex(tr)
	// wire evidence per stream: when its close frame was emitted / received, when a cancel was emitted
	type wireEv struct{ nsEmit, nsRecv, closeEmit, closeRecv, cancelEmit int }
	evs := map[streamKey]*wireEv{}
	for _, k := range ix.keys {
		e := &wireEv{-1, -1, -1, -1, -1}
		for _, f := range ix.byStream[k] {
			switch f.F.Kind {
			case "new_stream":
				if f.SendErr == "" && e.nsEmit < 0 {
					e.nsEmit, e.nsRecv = f.Step, f.Received
				}
			case "close":
				if e.closeEmit < 0 {
					e.closeEmit = f.Step // attempted, even if the carrier refused it
				}
				if f.Received >= 0 && e.closeRecv < 0 {
					e.closeRecv = f.Received
				}
			case "cancel":
				if e.cancelEmit < 0 {
					e.cancelEmit = f.Step
				}
			}
		}
		evs[k] = e
	}
	carrierOfTunnel := func(ti int) int {
		if ti < len(tr.Tunnels) {
			return tr.Tunnels[ti].Carrier
		}
		return -1
	}
	for _, sn := range tr.Snapshots {
		// stale entries: an id still in a table although the wire shows its stream has ended at that endpoint
		for ti, tab := range sn.ClientTables {
			car := carrierOfTunnel(ti)
			if car < 0 {
				continue
			}
			for _, id := range tab {
				e := evs[streamKey{car, id}]
				if e == nil {
					continue
				}
				if e.closeRecv >= 0 && e.closeRecv < sn.Step {
					add("client_table_stale_entry", sn.Step, "tunnel %d: stream %d still in the client table at step %d although its close_stream was received at step %d", ti, id, sn.Step, e.closeRecv)
				}
				if e.cancelEmit >= 0 && e.cancelEmit < sn.Step {
					add("client_table_stale_entry", sn.Step, "tunnel %d: stream %d still in the client table at step %d although it was cancelled (cancel frame at step %d)", ti, id, sn.Step, e.cancelEmit)
				}
			}
		}
		if len(ix.carriers) == 1 && c.Raw == nil {
			// with one carrier the live servers' ids can be attributed to it
			for si, tab := range sn.ServerTables {
				for _, id := range tab {
					e := evs[streamKey{ix.carriers[0], id}]
					if e == nil || si > 0 {
						continue
					}
					if e.closeEmit >= 0 && e.closeEmit < sn.Step {
						add("server_table_stale_entry", sn.Step, "stream %d still in the server table at step %d although its close_stream was emitted at step %d", id, sn.Step, e.closeEmit)
					}
				}
			}
		}
		// an RPC is also over, as far as the calling end is concerned, once its caller has been given the terminal result
		// (whatever the peer goes on doing): at a quiescent point after that the calling end holds no table entry for it
		if (sn.Phase == "drain1" || sn.Phase == "drain2" || sn.Phase == "idle") && sn.Parked == 0 {
			for i := range c.RPCs {
				k, ok := ix.keyOf[i]
				if !ok {
					continue
				}
				told := -1
				for _, o := range tr.Ops {
					if o.RPC != i || o.Side != "caller" || o.Pending() {
						continue
					}
					if (o.Kind == "recv" && o.Code != CodeNil) || o.Kind == "invoke" {
						if told < 0 || o.End < told {
							told = o.End
						}
					}
				}
				if told < 0 || told >= sn.Step {
					continue
				}
				for ti, tab := range sn.ClientTables {
					if carrierOfTunnel(ti) != k.carrier {
						continue
					}
					for _, id := range tab {
						if id == k.id {
							add("client_table_entry_after_call_returned", sn.Step, "tunnel %d: stream %d (rpc %d) is still in the client table at the quiescent step %d although its caller was given the RPC's terminal result at step %d", ti, id, i, sn.Step, told)
						}
					}
				}
			}
		}
		switch sn.Phase {
		case "drain2", "idle":
			// fully idle by wire evidence: every stream the server received has had its close emitted, every
			// stream the client opened has seen its close or was cancelled, nothing is in flight, no op pending
			idle := len(sn.PendingOps) == 0 && sn.Parked == 0 && allInvocationsReturned(tr, sn.Step) && base != nil && sn.InFlight == 0 && c.Reg == nil // (registry histories open tunnels as they go: no baseline)
			nestedUp := 0
			for _, t := range tr.Tunnels {
				if t.Kind == "nested" && t.Opened && (t.DoneStep < 0 || t.DoneStep > sn.Step) {
					nestedUp++
				}
				if (t.DoneStep >= 0 && t.DoneStep <= sn.Step) || (t.ServeReturned >= 0 && t.ServeReturned <= sn.Step) {
					idle = false // a tunnel (outer or nested) already ended: the baseline does not apply
				}
			}
			if strings.HasPrefix(c.Cfg.Dir, "nested") {
				// RPCs that run inside a nested tunnel are opaque payload on the outer wire: there is no wire evidence for
				// them. They are over when their callers have been given the terminal result (a step before the snapshot).
				for i := range c.RPCs {
					started, told := false, false
					for _, o := range tr.Ops {
						if o.RPC != i || o.Side != "caller" || o.Start > sn.Step {
							continue
						}
						started = true
						if !o.Pending() && o.End < sn.Step && ((o.Kind == "recv" && o.Code != CodeNil) || o.Kind == "invoke" || (o.Kind == "start" && o.Code != CodeNil)) {
							told = true
						}
					}
					if started && !told {
						idle = false
					}
				}
			}
			for k, e := range evs {
				if k.id == -1 || e.nsEmit < 0 || e.nsEmit > sn.Step {
					continue // (a stream opened after this snapshot - the probe RPC, say - says nothing about it)
				}
				isTunnelStream := false
				for _, f := range ix.byStream[k] {
					if f.F.Kind == "new_stream" && strings.Contains(f.F.Method, "TunnelService/") {
						isTunnelStream = true
					}
				}
				if isTunnelStream {
					continue
				}
				if e.nsRecv >= 0 && (e.closeEmit < 0 || e.closeEmit > sn.Step) {
					idle = false
				}
				if (e.closeRecv < 0 || e.closeRecv > sn.Step) && (e.cancelEmit < 0 || e.cancelEmit > sn.Step) {
					idle = false
				}
			}
			if idle {
				if sn.LibGoroutines != base.LibGoroutines {
					add("goroutine_left_after_rpcs", sn.Step, "every RPC has ended on both ends by step %d but %d library goroutines exist (baseline after tunnel establishment: %d)\n%s", sn.Step, sn.LibGoroutines, base.LibGoroutines, strings.Join(sn.Stacks, "\n---\n"))
				}
				for ti, tab := range sn.ClientTables {
					allowed := 0
					if ti < len(tr.Tunnels) && tr.Tunnels[ti].Kind != "nested" {
						allowed = nestedUp
					}
					if len(tab) > allowed {
						add("client_table_entry_left", sn.Step, "every RPC has ended by step %d but tunnel %d client table holds %v", sn.Step, ti, tab)
					}
				}
				total := 0
				for _, tab := range sn.ServerTables {
					total += len(tab)
				}
				if total > nestedUp {
					add("server_table_entry_left", sn.Step, "every RPC has ended by step %d but server tables hold %v", sn.Step, sn.ServerTables)
				}
				tr.label("c14_idle_point")
			}
		case "final":
			if sn.LibGoroutines != 0 {
				add("goroutine_left_after_tunnel_end", sn.Step, "%d library goroutine(s) remain after every tunnel ended and the simulation was drained:\n%s", sn.LibGoroutines, strings.Join(sn.Stacks, "\n---\n"))
			}
			if sn.Registry != 0 {
				add("registry_entry_left", sn.Step, "AllReverseTunnels() still lists %d tunnel(s) after every tunnel ended", sn.Registry)
			}
			if len(sn.KeyReady) > 0 {
				add("registry_entry_left", sn.Step, "the per-key registry still holds a tunnel for key(s) %v after every tunnel ended (KeyAsChannel(k).Ready() is true)", sn.KeyReady)
			}
			for si, tab := range sn.ServerTables {
				add("server_left_after_tunnel_end", sn.Step, "tunnel server #%d is still serving after every tunnel ended (table %v)", si, tab)
			}
			for ti, tab := range sn.ClientTables {
				if len(tab) > 0 {
					add("client_table_entry_left", sn.Step, "tunnel %d client table holds %v after the tunnel ended", ti, tab)
				}
			}
		}
	}
	if tr.Deadlock != "" {
		add("goroutines_blocked_at_exit", tr.Steps, "bubble could not exit: %s", tr.Deadlock)
	}
	return vs
}

func countOpened(tr *Trace, step int) int {
	return len(tr.Tunnels)
}

func allInvocationsReturned(tr *Trace, step int) bool {
	for _, inv := range tr.Invocations {
		if inv.Step > step {
			continue // invoked after this point (the probe RPC, say)
		}
		if inv.Returned < 0 || inv.Returned > step {
			return false
		}
	}
	return true
}

// ---------------------------------------------------------------------------
// C08 (wire + invocation log part)

func monC08(c *Case, tr *Trace) []Violation {
	var vs []Violation
	add := func(class string, step int, f string, a ...any) {
		vs = append(vs, Violation{Prop: "C08", Class: class, Step: step, Details: fmt.Sprintf(f, a...)})
	}
	if c.Raw != nil && c.Raw.Role == "client" {
		return nil // ids are the raw peer's
	}
	ix := buildWireIndex(tr)
	last := map[int]int64{}
	seenFirst := map[streamKey]bool{}
	for _, f := range tr.Frames {
		if f.F == nil || !f.F.ToServer || f.SendErr != "" {
			continue
		}
		k := streamKey{f.Stream, f.F.ID}
		if f.F.Kind == "new_stream" {
			if prev, ok := last[f.Stream]; ok && f.F.ID <= prev {
				add("stream_id_not_increasing", f.Step, "carrier %d: new_stream id %d emitted after id %d", f.Stream, f.F.ID, prev)
			}
			if seenFirst[k] {
				add("stream_id_reused", f.Step, "carrier %d: second new_stream for id %d", f.Stream, f.F.ID)
			}
			last[f.Stream] = f.F.ID
			seenFirst[k] = true
		} else if !seenFirst[k] {
			add("frame_before_new_stream", f.Step, "carrier %d: %s emitted before the stream's new_stream", f.Stream, f.F)
			seenFirst[k] = true
		}
	}
	_ = ix
	// one RPC, at most one invocation, of the named handler
	perRPC := map[int][]*Invocation{}
	for _, inv := range tr.Invocations {
		if inv.RPC >= 0 {
			perRPC[inv.RPC] = append(perRPC[inv.RPC], inv)
		} else if inv.Tag >= len(c.RPCs) || (inv.Tag < 0 && c.Raw == nil) {
			add("unexpected_invocation", inv.Step, "handler %s invoked with tag %d that matches no started RPC", inv.Method, inv.Tag)
		}
	}
	for i := range c.RPCs {
		sp := &c.RPCs[i]
		invs := perRPC[i]
		if len(invs) > 1 {
			add("handler_invoked_twice", invs[1].Step, "rpc %d: %d handler invocations", i, len(invs))
		}
		wantMethod := sp.Shape
		if sp.Alt {
			wantMethod = "alt:" + sp.Shape
		}
		if sp.Method != "" {
			wantMethod = ""
			for _, sh := range []string{"unary", "cstream", "sstream", "bidi"} {
				if strings.TrimPrefix(sp.Method, "/") == strings.TrimPrefix(shapeMethod(sh), "/") {
					wantMethod = sh
				}
			}
		}
		for _, inv := range invs {
			if inv.Method != wantMethod {
				add("wrong_handler", inv.Step, "rpc %d (%s %q): handler %q was invoked", i, sp.Shape, sp.Method, inv.Method)
			}
		}
		// exactly one when the caller saw completion produced by the handler (OK, or the scripted non-OK status with scripted message)
		completed := false
		for _, o := range tr.Ops {
			if o.RPC != i || o.Side != "caller" || o.Pending() {
				continue
			}
			if (o.Kind == "invoke" && o.Code == CodeNil) || (o.Kind == "recv" && o.Code == CodeEOF) {
				completed = true
			}
		}
		if completed && len(invs) == 0 {
			add("completed_without_invocation", 0, "rpc %d completed OK at the caller but no handler was invoked", i)
		}
	}
	return vs
}

func isTunnelStream(frames []*FrameRec) bool {
	for _, f := range frames {
		if f.F != nil && f.F.Kind == "new_stream" && strings.Contains(f.F.Method, "TunnelService/") {
			return true
		}
	}
	return false
}

func sortedKeys[M ~map[string]V, V any](m M) []string {
	ks := make([]string, 0, len(m))
	for k := range m {
		ks = append(ks, k)
	}
	sort.Strings(ks)
	return ks
}
