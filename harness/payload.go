package harness

import (
	"bytes"
	"encoding/binary"
	"fmt"
)

// Payload bytes are a deterministic function of (rpc tag, direction, index,
// size): an 8-byte header (magic, dir, tag, idx, size-low) followed by a
// keyed xorshift stream, truncated to size. Loss, duplication, reordering,
// truncation, merging and cross-delivery are all distinguishable.

const payloadHdr = 8

func payload(tag int, dir byte, idx int, size int) []byte {
	if size == 0 {
		return nil
	}
	b := make([]byte, size)
	var h [payloadHdr]byte
	h[0] = 0xA5
	h[1] = dir
	binary.BigEndian.PutUint16(h[2:], uint16(tag))
	binary.BigEndian.PutUint16(h[4:], uint16(idx))
	binary.BigEndian.PutUint16(h[6:], uint16(size))
	n := copy(b, h[:])
	x := uint64(tag+1)*0x9E3779B97F4A7C15 ^ uint64(idx+1)*0xC2B2AE3D27D4EB4F ^ uint64(dir)<<56 ^ uint64(size)
	if x == 0 {
		x = 1
	}
	for i := n; i < size; {
		x ^= x << 13
		x ^= x >> 7
		x ^= x << 17
		var w [8]byte
		binary.LittleEndian.PutUint64(w[:], x)
		i += copy(b[i:], w[:])
	}
	return b
}

// PayloadObs is what a receiver observed for one message.
type PayloadObs struct {
	Size   int    `json:"size"`
	OK     bool   `json:"ok"`               // byte-for-byte the expected idx-th message of this RPC and direction
	Class  string `json:"class,omitempty"`  // classification when !OK
	Tag    int    `json:"tag,omitempty"`    // decoded from the header when available
	Idx    int    `json:"idx,omitempty"`
}

// classifyPayload compares got with the message expected at position pos of
// (tag, dir) whose sizes are given.
func classifyPayload(got []byte, tag int, dir byte, pos int, sizes []int) PayloadObs {
	obs := PayloadObs{Size: len(got), Tag: -1, Idx: -1}
	if len(got) >= payloadHdr && got[0] == 0xA5 {
		obs.Tag = int(binary.BigEndian.Uint16(got[2:]))
		obs.Idx = int(binary.BigEndian.Uint16(got[4:]))
	}
	if pos < len(sizes) {
		want := payload(tag, dir, pos, sizes[pos])
		if bytes.Equal(got, want) {
			obs.OK = true
			return obs
		}
	}
	// classify
	switch {
	case pos >= len(sizes):
		obs.Class = "fabricated_extra_message"
		if obs.Tag >= 0 && (obs.Tag != tag || got[1] != dir) {
			obs.Class = "foreign_message"
		} else if obs.Idx >= 0 && obs.Idx < len(sizes) && bytes.Equal(got, payload(tag, dir, obs.Idx, sizes[obs.Idx])) {
			obs.Class = "duplicate_message"
		}
	case obs.Tag >= 0 && (obs.Tag != tag || got[1] != dir):
		obs.Class = "foreign_message"
	case obs.Idx >= 0 && obs.Idx != pos && obs.Idx < len(sizes) && bytes.Equal(got, payload(tag, dir, obs.Idx, sizes[obs.Idx])):
		if obs.Idx < pos {
			obs.Class = "duplicate_message"
		} else {
			obs.Class = "reordered_or_lost_message"
		}
	case len(got) < sizes[pos] && bytes.Equal(got, payload(tag, dir, pos, sizes[pos])[:len(got)]):
		obs.Class = "truncated_message"
		if len(got) == 0 {
			obs.Class = "fabricated_empty_message"
		}
	case len(got) > sizes[pos] && sizes[pos] > 0 && bytes.Equal(got[:sizes[pos]], payload(tag, dir, pos, sizes[pos])):
		obs.Class = "merged_message"
	case len(got) == 0:
		obs.Class = "fabricated_empty_message"
	default:
		obs.Class = "corrupted_message"
	}
	return obs
}

func (o PayloadObs) String() string {
	if o.OK {
		return fmt.Sprintf("ok(%d)", o.Size)
	}
	return fmt.Sprintf("%s(size=%d tag=%d idx=%d)", o.Class, o.Size, o.Tag, o.Idx)
}
