package harness

import (
	"fmt"
	"strings"

	"pgregory.net/rapid"
)

func genC17(t *rapid.T) *Case {
	c := &Case{Prop: "c17"}
	c.Cfg = Config{Dir: rapid.SampledFrom([]string{"fwd", "rev", "rev", "nested", "nestedrev"}).Draw(t, "dir"),
		ClientFC: rapid.SampledFrom([]string{"on", "on", "off"}).Draw(t, "client_fc"), ServerFC: rapid.SampledFrom([]string{"on", "on", "off"}).Draw(t, "server_fc")}
	nt := 1
	if c.Cfg.Dir == "rev" {
		nt = rapid.IntRange(1, 4).Draw(t, "ntunnels")
	}
	for i := 0; i < nt; i++ {
		spec := TunnelSpec{Server: i, Peer: fmt.Sprintf("10.0.0.%d:%d", i+1, 4000+i), CtxVal: fmt.Sprintf("val-%d", i)}
		md := genMD(t, fmt.Sprintf("t%d.md", i))
		spec.MD = map[string][]string{}
		for k, v := range md {
			if !strings.HasSuffix(k, "-bin") {
				spec.MD[k] = v
			}
		}
		spec.MD["tunnel-name"] = []string{fmt.Sprintf("t%d", i), "second"}
		if rapid.IntRange(0, 2).Draw(t, fmt.Sprintf("t%d.icpt", i)) == 0 {
			// a client stream interceptor on the network connection adds metadata (an auth token, say) to the opening call
			spec.IcptMD = map[string][]string{"x-icpt-token": {fmt.Sprintf("tok-%d", i)}}
			if rapid.Bool().Draw(t, fmt.Sprintf("t%d.icpt2", i)) {
				spec.IcptMD["tunnel-name"] = []string{"from-interceptor"} // appended to a key the opener also set
			}
		}
		if rapid.IntRange(0, 2).Draw(t, fmt.Sprintf("t%d.srvout", i)) == 0 {
			// a server stream interceptor on the network server puts outgoing metadata into the context of the opening call
			// as the server end sees it (what a propagating tracer does); it is not the metadata that opened the tunnel
			spec.SrvOutMD = map[string][]string{"x-propagated": {fmt.Sprintf("trace-%d", i)}, "tunnel-name": {"from-server-interceptor"}}
		}
		c.Cfg.Tunnels = append(c.Cfg.Tunnels, spec)
	}
	n := rapid.IntRange(2, 6).Draw(t, "nrpcs")
	for i := 0; i < n; i++ {
		r := genBystander(t, fmt.Sprintf("r%d", i))
		r.Role = "identity"
		r.Access = true
		r.ChanOpt = rapid.Bool().Draw(t, fmt.Sprintf("r%d.chanopt", i))
		r.ChanOpt2 = r.ChanOpt && rapid.IntRange(0, 2).Draw(t, fmt.Sprintf("r%d.chanopt2", i)) == 0
		r.PeerOpt = rapid.Bool().Draw(t, fmt.Sprintf("r%d.peeropt", i))
		switch rapid.IntRange(0, 3).Draw(t, fmt.Sprintf("r%d.md", i)) {
		case 0:
			r.NoMD = true
		default:
			r.ReqMD = genMD(t, fmt.Sprintf("r%d.reqmd", i))
			if rapid.IntRange(0, 2).Draw(t, fmt.Sprintf("r%d.timeout", i)) == 0 {
				// a deadline that exists on the serving end (the handler's context is then built on a different path)
				r.GrpcTimeout = []string{rapid.SampledFrom([]string{"30S", "1H", "5000m"}).Draw(t, fmt.Sprintf("r%d.timeoutval", i))}
			}
		}
		c.RPCs = append(c.RPCs, r)
	}
	untagged := 0
	for i := range c.RPCs {
		if c.RPCs[i].NoMD {
			untagged++
			if untagged > 1 {
				c.RPCs[i].NoMD = false
			}
		}
	}
	c.Tape = genTape(t, 0, 150)
	return c
}

func expectedTunnelMD(c *Case, ti int) map[string][]string {
	md := map[string][]string{}
	nested := c.Cfg.Dir == "nested" || c.Cfg.Dir == "nestedrev"
	if nested {
		// RPCs run over the inner tunnel, opened by the harness with this metadata
		return map[string][]string{"x-verif-tunnel": {"1"}, "x-verif-nested": {"1"}, "grpctunnel-negotiate": {"on"}}
	}
	for k, v := range c.Cfg.OpenMD {
		md[k] = append([]string{}, v...)
	}
	if ti < len(c.Cfg.Tunnels) {
		sp := c.Cfg.Tunnels[ti]
		for k, v := range sp.MD {
			md[k] = append([]string{}, v...)
		}
		if sp.Key != "" {
			md["x-verif-key"] = []string{sp.Key}
		}
		for k, v := range sp.IcptMD {
			md[k] = append(md[k], v...)
		}
	}
	md["x-verif-tunnel"] = []string{fmt.Sprint(ti)}
	md["grpctunnel-negotiate"] = []string{"on"}
	return md
}

func monC17(c *Case, tr *Trace) []Violation {
	var vs []Violation
	add := func(class string, step int, f string, a ...any) {
		vs = append(vs, Violation{Prop: "C17", Class: class, Step: step, Details: fmt.Sprintf(f, a...)})
	}
	if tr.Aborted != "" {
		return nil
	}
	for _, p := range tr.Panics {
		add("panic", 0, "%s", p)
	}
	nested := c.Cfg.Dir == "nested" || c.Cfg.Dir == "nestedrev"
	rev := c.Cfg.Dir == "rev" || c.Cfg.Dir == "nestedrev"
	for i := range c.RPCs {
		sp := &c.RPCs[i]
		var inv *Invocation
		for _, x := range tr.Invocations {
			if x.RPC == i {
				inv = x
			}
		}
		if inv == nil {
			continue
		}
		// which tunnel carried it
		ti := 0
		if c.Cfg.Dir == "rev" {
			ti = inv.Instance
		}
		wantTMD := expectedTunnelMD(c, ti)
		// --- handler side
		if !inv.HasTunnelMD {
			add("tunnel_metadata_missing", inv.Step, "rpc %d: TunnelMetadataFromIncomingContext reported no tunnel metadata in the handler", i)
		} else if !mdEqual(inv.TunnelMD, wantTMD) {
			add("tunnel_metadata_wrong", inv.Step, "rpc %d (tunnel %d): handler sees tunnel metadata %s; the tunnel was opened with %s", i, ti, mdString(inv.TunnelMD), mdString(wantTMD))
		}
		if inv.TunnelMDAfterMut != nil && !mdEqual(inv.TunnelMDAfterMut, wantTMD) {
			add("tunnel_metadata_not_private", inv.Step, "rpc %d: after mutating the map returned by TunnelMetadataFromIncomingContext, the next call returns %s; want %s", i, mdString(inv.TunnelMDAfterMut), mdString(wantTMD))
		}
		wantMD := expectedRequestMD(i, sp)
		if !mdEqual(inv.MD, wantMD) {
			add("request_metadata_wrong", inv.Step, "rpc %d: handler sees request metadata %s; the caller attached %s", i, mdString(inv.MD), mdString(wantMD))
		}
		wantPeer, wantVal := "", ""
		t0 := TunnelSpec{}
		if ti < len(c.Cfg.Tunnels) {
			t0 = c.Cfg.Tunnels[ti]
		}
		if rev {
			// the tunnel-opening call is the network client's: its context carries the server's address and the client-side value
			wantPeer, wantVal = "server.verif:443", "cli-"+t0.CtxVal
		} else {
			wantPeer, wantVal = t0.Peer, t0.CtxVal
		}
		if inv.Peer != wantPeer {
			add("peer_wrong", inv.Step, "rpc %d: handler sees peer %q; the tunnel-opening call has peer %q", i, inv.Peer, wantPeer)
		}
		if inv.CtxVal != wantVal {
			add("context_value_lost", inv.Step, "rpc %d: handler sees interceptor value %q; the tunnel-opening call carries %q", i, inv.CtxVal, wantVal)
		}
		// --- caller side
		wantChan := fmt.Sprintf("tunnel:%d", ti)
		if nested {
			wantChan = "tunnel:1"
		}
		for _, o := range tr.Ops {
			if o.RPC != i || o.Side != "caller" || o.Extra == nil {
				continue
			}
			if v, ok := o.Extra["ctx_chan"]; ok && v != wantChan {
				add("channel_identity_wrong", o.End, "rpc %d: TunnelChannelFromContext reports %s; the RPC was served through %s", i, v, wantChan)
			}
			if v, ok := o.Extra["opt_chan"]; ok && v != wantChan {
				add("channel_identity_wrong", o.End, "rpc %d: the WithTunnelChannel target holds %s; the RPC was served through %s", i, v, wantChan)
			}
			if v, ok := o.Extra["opt_chan2"]; ok && v != wantChan {
				add("channel_identity_wrong", o.End, "rpc %d: the target of a second WithTunnelChannel option on the same call holds %s; the RPC was served through %s", i, v, wantChan)
			}
			if v, ok := o.Extra["ctx_tunnel_md"]; ok {
				if v != mdString(wantTMD) {
					add("tunnel_metadata_wrong", o.End, "rpc %d: TunnelMetadataFromOutgoingContext returns %s; the tunnel was opened with %s", i, v, mdString(wantTMD))
				}
				if v2, ok2 := o.Extra["ctx_tunnel_md_after_mut"]; ok2 && v2 != mdString(wantTMD) {
					add("tunnel_metadata_not_private", o.End, "rpc %d: after mutating the map returned by TunnelMetadataFromOutgoingContext, the next call returns %s; want %s", i, v2, mdString(wantTMD))
				}
			}
			if v, ok := o.Extra["opt_peer"]; ok && !nested {
				want := "server.verif:443"
				if rev {
					want = t0.Peer
				}
				if v != want {
					add("peer_option_wrong", o.End, "rpc %d: the grpc.Peer target holds %s; the tunnel's peer is %s", i, v, want)
				}
			}
		}
	}
	return vs
}

func ntC17(c *Case, tr *Trace) bool {
	// at least two tunnels (or a nested one) and a mutation before a later read
	if len(tr.Invocations) < 2 {
		return false
	}
	return len(c.Cfg.Tunnels) >= 2 || c.Cfg.Dir == "nested" || c.Cfg.Dir == "nestedrev"
}
