package harness

import (
	"fmt"
	"os"
	"testing"

	"pgregory.net/rapid"
)

// TestDebugDeadlocks prints the first few cases whose bubble could not exit.
func TestDebugDeadlocks(t *testing.T) {
	if os.Getenv("VERIF_DEBUG") == "" {
		t.Skip()
	}
	n := 0
	rapid.Check(t, func(rt *rapid.T) {
		c := genMixed(rt)
		tr := runInBubble(t, c)
		if tr.Deadlock != "" && n < 3 {
			n++
			fmt.Printf("CASE %s\nDEADLOCK %s\nNOTES %v\n%s\n", c.JSON(), tr.Deadlock, tr.Notes, tr.Excerpt(60))
			for _, sn := range tr.Snapshots {
				fmt.Printf("SNAP %+v\n", *sn)
			}
		}
	})
}
