package harness

import (
	"encoding/json"
	"fmt"
	"os"
	"testing"

	"pgregory.net/rapid"
)

// TestDbgSearchC10: brute-force search over short tapes for a refused RPC whose caller does not see Unavailable (development aid, env-gated).
func TestDbgSearchC10(t *testing.T) {
	if os.Getenv("VERIF_SEARCH_C10") == "" {
		t.Skip()
	}
	found := 0
	for k := 2; k <= 9 && found < 3; k++ {
		for n := 0; n < 1<<14 && found < 3; n++ { // 7 base-4 digits
			tape := make([]int, 7)
			x := n
			for i := range tape {
				tape[i] = x & 3
				x >>= 2
			}
			c := &Case{Prop: "c10"}
			c.Cfg = Config{Dir: "rev", ClientFC: "off", ServerFC: "on", Cap: 1}
			c.RPCs = []RPC{{Shape: "unary", AfterEvent: 1, Role: "late", Req: []int{0}, Resp: []int{0}, HWaitRecv: true}}
			c.Events = []Event{{Kind: "graceful_stop", After: 0, AtStep: true}, {Kind: "stop", After: k, AtStep: true}}
			c.Tape = tape
			tr := runInBubble(t, c)
			for _, v := range monC10(c, tr) {
				if v.Class == "late_rpc_not_refused" {
					found++
					b, _ := json.Marshal(map[string]any{"prop": "C10", "part": "c10", "violations": []Violation{v}, "case": c})
					p := fmt.Sprintf("/tmp/vout/c10found-%d.json", found)
					os.WriteFile(p, b, 0o644)
					fmt.Println("FOUND", p, v.Details)
					fmt.Println(tr.Excerpt(80))
				}
			}
		}
	}
	fmt.Println("found", found)
}

// TestDbgQuiesce: runs generated raw_overrun / mixed cases with the quiescence cross-check on and reports mismatches.
func TestDbgQuiesce(t *testing.T) {
	if os.Getenv("VERIF_VERIFY_QUIESCE") == "" {
		t.Skip()
	}
	n := 0
	rapid.Check(t, func(rt *rapid.T) {
		var c *Case
		if rapid.Bool().Draw(rt, "which") {
			c = genRawOverrun(rt)
		} else {
			c = genMixedTerm(rt)
		}
		runInBubble(t, c)
		n++
	})
	fmt.Println("cases", n, "quiescence mismatches", QuiesceMismatch.Load())
}
