package harness

import (
	"fmt"

	"pgregory.net/rapid"
)

var rawServerDeviations = []string{
	"frame_unknown_id", "settings_late", "settings_on_stream",
	"headers_twice", "close_twice", "data_after_close", "no_headers", "more_to_msg", "msg_to_more",
	"size_too_small", "size_too_big", "size_huge", "nil_frame", "oversize_chunk", "window_overrun",
	"unary_two_responses", "unary_many_responses", "unary_no_response", "window_update_huge", "window_update_zero",
	"dup_frame", "drop_frame", "swap_frames", "no_close", "unary_junk_then_silence", "unary_junk_then_silence",
}

func conformingReply(tag int, r *RPC) []RawFrame {
	fs := []RawFrame{{Kind: "headers", Tag: tag}}
	if r.Code == 0 || respStreams(r.Shape) {
		for i, s := range r.Resp {
			fs = append(fs, chunkFrames(0, tag, i, wireSize(s), "msg")...)
		}
	}
	fs = append(fs, RawFrame{Kind: "close", Tag: tag, Code: int32(r.Code), Text: r.Msg})
	return fs
}

type replyState struct {
	tag   int
	fs    []RawFrame
	dirty bool
	code  int
	why   string
}

func applyServerDeviation(t *rapid.T, label, kind string, reps []*replyState, c *Case) string {
	rs := reps[rapid.IntRange(0, len(reps)-1).Draw(t, label+".rpc")]
	r := &c.RPCs[rs.tag]
	mark := func(code int) {
		if rs.dirty {
			rs.code = 0
		} else {
			rs.code = code
		}
		rs.dirty = true
		rs.why += kind + " "
	}
	pos := func(l string, lo, hi int) int {
		if hi < lo {
			hi = lo
		}
		return rapid.IntRange(lo, hi).Draw(t, label+"."+l)
	}
	insert := func(at int, f RawFrame) {
		if at > len(rs.fs) {
			at = len(rs.fs) // earlier deviations may have removed frames
		}
		rs.fs = append(rs.fs[:at], append([]RawFrame{f}, rs.fs[at:]...)...)
	}
	closeIdx := func() int {
		for i, f := range rs.fs {
			if f.Kind == "close" {
				return i
			}
		}
		return len(rs.fs)
	}
	switch kind {
	case "frame_unknown_id":
		k := rapid.SampledFrom([]string{"msg", "more", "headers", "close", "window_update", "nil"}).Draw(t, label+".fkind")
		c.Raw.Extra = append(c.Raw.Extra, RawFrame{ID: 1<<40 + int64(pos("id", 0, 5)), Kind: k, Tag: -1, Size: 3, DataLen: 3, Zeros: true})
		return "frame_unknown_id"
	case "settings_late":
		// a second settings frame with the tunnel-wide id, at some later point: the statement is silent
		c.Raw.Extra = append(c.Raw.Extra, RawFrame{ID: -1, Kind: "settings", Tag: -1, Revs: []int32{0, 1}, Window: 65536})
		return "?"
	case "settings_on_stream":
		insert(pos("at", 0, closeIdx()), RawFrame{Kind: "settings", Tag: rs.tag, Revs: []int32{0, 1}, Window: 65536})
		mark(0)
	case "headers_twice":
		insert(pos("at", 1, closeIdx()), RawFrame{Kind: "headers", Tag: rs.tag, MD: map[string][]string{"second": {"1"}}})
		mark(0)
	case "close_twice":
		rs.fs = append(rs.fs, RawFrame{Kind: "close", Tag: rs.tag, Code: 13, Text: "second close"})
		// the first close decides; the second is a frame for a finished stream and must be ignored
	case "data_after_close":
		rs.fs = append(rs.fs, RawFrame{Kind: "msg", Tag: rs.tag, Size: 5, DataLen: 5, Zeros: true, NoWindow: true})
	case "no_headers":
		if len(rs.fs) > 0 && rs.fs[0].Kind == "headers" {
			rs.fs = rs.fs[1:]
		}
		// headers are optional in the protocol: still clean
	case "more_to_msg":
		for i := range rs.fs {
			if rs.fs[i].Kind == "more" {
				rs.fs[i].Kind, rs.fs[i].Size = "msg", uint32(rs.fs[i].DataLen)
				mark(0)
				return ""
			}
		}
	case "msg_to_more":
		for i := range rs.fs {
			if rs.fs[i].Kind == "msg" {
				rs.fs[i].Kind = "more"
				mark(0)
				return ""
			}
		}
	case "size_too_small":
		for i := range rs.fs {
			if rs.fs[i].Kind == "msg" && rs.fs[i].DataLen > 0 {
				rs.fs[i].Size = uint32(rs.fs[i].DataLen - 1)
				mark(0)
				return ""
			}
		}
	case "size_too_big":
		for i := range rs.fs {
			if rs.fs[i].Kind == "msg" {
				rs.fs[i].Size += uint32(pos("extra", 1, 5000))
				mark(0)
				return ""
			}
		}
	case "size_huge":
		for i := range rs.fs {
			if rs.fs[i].Kind == "msg" {
				rs.fs[i].Size = uint32(rapid.SampledFrom([]int{hugeDeclared, 2 * hugeDeclared, 3 * hugeDeclared}).Draw(t, label+".size"))
				mark(0)
				return ""
			}
		}
	case "nil_frame":
		insert(pos("at", 0, closeIdx()), RawFrame{Kind: "nil", Tag: rs.tag})
		mark(0)
	case "oversize_chunk":
		n := pos("n", 16385, 40000)
		insert(pos("at", 1, closeIdx()), RawFrame{Kind: "msg", Tag: rs.tag, Size: uint32(n), DataLen: n, Zeros: true})
		mark(0)
	case "window_overrun":
		// un-credited data beyond the client's 64 KiB window while the caller reads nothing
		over := pos("over", 1, 2*65536)
		total := 65536 + over
		// right after the headers: conforming data before it would need credit, i.e. a reader that reads
		at := 1
		if len(rs.fs) == 0 || rs.fs[0].Kind != "headers" {
			at = 0
		}
		var fs []RawFrame
		for off := 0; off < total; off += 16384 {
			n := total - off
			if n > 16384 {
				n = 16384
			}
			f := RawFrame{Kind: "more", Tag: rs.tag, DataLen: n, Zeros: true, NoWindow: true}
			if off == 0 {
				f.Kind, f.Size = "msg", uint32(total)
			}
			fs = append(fs, f)
		}
		rs.fs = append(rs.fs[:at], append(fs, rs.fs[at:]...)...)
		r.StallRecv = true
		if r.Shape == "unary" && r.Via != "stream" {
			r.Via = "stream"
		}
		mark(8)
	case "unary_two_responses":
		if !respStreams(r.Shape) && r.Code == 0 && len(r.Resp) == 1 {
			extra := chunkFrames(0, rs.tag, 0, wireSize(r.Resp[0]), "msg")
			at := closeIdx()
			rs.fs = append(rs.fs[:at], append(extra, rs.fs[at:]...)...)
			mark(-1) // any non-OK result
		}
	case "unary_many_responses":
		// 3-7 responses to a call that expects one; the caller keeps calling Recv after the failure
		if !respStreams(r.Shape) && r.Code == 0 && len(r.Resp) == 1 {
			k := rapid.IntRange(2, 6).Draw(t, label+".extra")
			at := closeIdx()
			var extra []RawFrame
			for j := 0; j < k; j++ {
				extra = append(extra, chunkFrames(0, rs.tag, 0, wireSize(r.Resp[0]), "msg")...)
			}
			rs.fs = append(rs.fs[:at], append(extra, rs.fs[at:]...)...)
			r.ExtraRecvs = rapid.IntRange(1, 3).Draw(t, label+".again")
			// half of the callers start reading only when everything, the close included, has arrived
			r.StallRecv = rapid.Bool().Draw(t, label+".stall")
			if r.Shape == "unary" {
				r.Via = "stream" // Recv is the application's to call
			}
			mark(-1)
		}
	case "unary_junk_then_silence":
		// a complete single response, then something that is not a message, then nothing more - the server never closes
		if !respStreams(r.Shape) && r.Code == 0 && len(r.Resp) == 1 {
			junk := RawFrame{Kind: rapid.SampledFrom([]string{"more", "more", "nil", "headers"}).Draw(t, label+".junk"), Tag: rs.tag, Size: 3, DataLen: 3, Zeros: true}
			if junk.Kind == "headers" {
				junk = RawFrame{Kind: "headers", Tag: rs.tag, MD: map[string][]string{"late": {"1"}}}
			}
			rs.fs = append(rs.fs[:closeIdx()], junk)
			mark(0)
		}
	case "unary_no_response":
		if !respStreams(r.Shape) && r.Code == 0 {
			var fs []RawFrame
			for _, f := range rs.fs {
				if f.Kind != "msg" && f.Kind != "more" {
					fs = append(fs, f)
				}
			}
			rs.fs = fs
			mark(-1)
		}
	case "window_update_huge":
		insert(pos("at", 0, closeIdx()), RawFrame{Kind: "window_update", Tag: rs.tag, Size: 1<<32 - 1})
		mark(0)
	case "window_update_zero":
		insert(pos("at", 0, closeIdx()), RawFrame{Kind: "window_update", Tag: rs.tag, Size: 0})
	case "dup_frame":
		if len(rs.fs) > 1 {
			i := pos("at", 0, len(rs.fs)-1)
			insert(i, rs.fs[i])
			mark(0)
		}
	case "drop_frame":
		if len(rs.fs) > 1 {
			i := pos("at", 0, len(rs.fs)-1)
			rs.fs = append(rs.fs[:i], rs.fs[i+1:]...)
			mark(0)
		}
	case "swap_frames":
		if len(rs.fs) > 2 {
			i := pos("at", 0, len(rs.fs)-2)
			rs.fs[i], rs.fs[i+1] = rs.fs[i+1], rs.fs[i]
			mark(0)
		}
	case "no_close":
		rs.fs = rs.fs[:closeIdx()]
		mark(0)
	}
	return ""
}

func genRawServerWith(t *rapid.T, devs []string, ndev int, settings *RawSettings) *Case {
	c := &Case{Prop: "raw_server"}
	c.Cfg = Config{Dir: "fwd", ClientFC: rapid.SampledFrom([]string{"on", "on", "on", "off"}).Draw(t, "client_fc"), ServerFC: "on"}
	c.Cfg.Cap = rapid.SampledFrom([]int{0, 0, 0, 2, 8}).Draw(t, "cap")
	raw := &Raw{Role: "server", Negotiate: true, AutoCredit: true}
	if settings == nil {
		settings = &RawSettings{ID: -1, Revisions: []int32{0, 1}, Window: 65536}
		switch rapid.IntRange(0, 7).Draw(t, "settings.kind") {
		case 0:
			raw.Negotiate = false // a revision-zero server: no negotiate header, no settings
		case 1:
			settings.Revisions = []int32{0}
			settings.Window = 0
		case 2:
			settings.Window = rapid.SampledFrom([]uint32{1, 100, 16385, 1<<32 - 1}).Draw(t, "settings.window")
		}
	}
	raw.Settings = settings
	c.Raw = raw
	fc := raw.Negotiate && c.Cfg.ClientFC != "off" && containsRev(settings.Revisions, 1)
	raw.AutoCredit = fc
	n := rapid.IntRange(1, 3).Draw(t, "nrpcs")
	var reps []*replyState
	for i := 0; i < n; i++ {
		r := genBystander(t, fmt.Sprintf("r%d", i))
		r.Role = "raw"
		r.HWaitRecv = false
		if rapid.IntRange(0, 5).Draw(t, fmt.Sprintf("r%d.err", i)) == 0 {
			r.Code, r.Msg = rapid.IntRange(1, 16).Draw(t, fmt.Sprintf("r%d.code", i)), "scripted by raw server"
			if !respStreams(r.Shape) {
				r.Resp = nil
			}
		}
		if fc && settings.Window < 1000 {
			for j := range r.Req {
				if r.Req[j] > 300 {
					r.Req[j] = 300
				}
			}
		}
		r.HOps = nil
		c.RPCs = append(c.RPCs, r)
		reps = append(reps, &replyState{tag: i, fs: conformingReply(i, &c.RPCs[i])})
	}
	tunnelLevel := ""
	for d := 0; d < ndev; d++ {
		kind := rapid.SampledFrom(devs).Draw(t, fmt.Sprintf("dev%d", d))
		if !fc && (kind == "window_overrun" || kind == "window_update_huge" || kind == "window_update_zero") {
			continue // revision zero has no windows
		}
		raw.Dev = append(raw.Dev, kind)
		if tl := applyServerDeviation(t, fmt.Sprintf("dev%d", d), kind, reps, c); tl != "" && (tunnelLevel == "" || tunnelLevel == "?") {
			tunnelLevel = tl
		}
	}
	// a closing conforming unary RPC, started only when everything else has been sent
	tag := len(c.RPCs)
	c.RPCs = append(c.RPCs, RPC{Shape: "unary", Req: []int{3}, Resp: []int{5}, Role: "raw_probe"})
	reps = append(reps, &replyState{tag: tag, fs: conformingReply(tag, &c.RPCs[tag])})
	for _, rs := range reps {
		raw.Replies = append(raw.Replies, RawReply{Tag: rs.tag, Frames: rs.fs})
		raw.Expect = append(raw.Expect, RawExpect{Tag: rs.tag, Clean: !rs.dirty, Code: rs.code, Why: rs.why})
	}
	raw.TunnelLevel = tunnelLevel
	c.Tape = genTape(t, 0, 200)
	return c
}

func containsRev(rs []int32, r int32) bool {
	for _, x := range rs {
		if x == r {
			return true
		}
	}
	return false
}

func genRawServer(t *rapid.T) *Case {
	nd := rapid.SampledFrom([]int{0, 1, 1, 1, 2, 3}).Draw(t, "ndev")
	return genRawServerWith(t, rawServerDeviations, nd, nil)
}

func genRawServerShapes(t *rapid.T) *Case { // C16: call shapes on the client end
	c := genRawServerWith(t, []string{"unary_two_responses", "unary_no_response", "unary_many_responses", "unary_many_responses", "data_after_close", "dup_frame"}, rapid.IntRange(1, 2).Draw(t, "ndev"), nil)
	c.Prop = "raw_server_shapes"
	return c
}

func genRawServerOverrun(t *rapid.T) *Case { // C06: the client's receiver enforces its window
	c := genRawServerWith(t, []string{"window_overrun", "window_overrun", "window_update_zero"}, rapid.IntRange(1, 2).Draw(t, "ndev"), &RawSettings{ID: -1, Revisions: []int32{0, 1}, Window: 65536})
	c.Prop = "raw_server_overrun"
	return c
}
