package harness

import (
	"encoding/json"
	"fmt"
	"os"
	"testing"
)

func TestDbgReplay(t *testing.T) {
	p := os.Getenv("VERIF_CASE")
	if p == "" {
		t.Skip()
	}
	b, _ := os.ReadFile(p)
	var rf replayFile
	json.Unmarshal(b, &rf)
	tr := runInBubble(t, rf.Case)
	fmt.Println(tr.PhaseStart, tr.Notes, tr.Aborted)
	fmt.Println(tr.Excerpt(400))
}
