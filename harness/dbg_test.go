package harness

import (
	"encoding/json"
	"fmt"
	"os"
	"testing"
)

func TestDbgReplay(t *testing.T) {
	p := os.Getenv("VERIF_CASE")
	if p == "" {
		t.Skip()
	}
	b, _ := os.ReadFile(p)
	var rf replayFile
	json.Unmarshal(b, &rf)
	tr := runInBubble(t, rf.Case)
	fmt.Println(tr.PhaseStart, tr.Notes, tr.Aborted)
	fmt.Println(tr.Excerpt(400))
	for _, sn := range tr.Snapshots {
		fmt.Printf("  snapshot %s@%d lib=%d client=%v server=%v pending=%v parked=%d inflight=%d\n", sn.Phase, sn.Step, sn.LibGoroutines, sn.ClientTables, sn.ServerTables, sn.PendingOps, sn.Parked, sn.InFlight)
	}
	for _, m := range []Monitor{monC14} {
		for _, v := range m(rf.Case, tr) {
			fmt.Println("  MON", v.Prop, v.Class, v.Details)
		}
	}
}
