package harness

import (
	"fmt"
	"sort"
	"strings"

	"github.com/jhump/grpctunnel/tunnelpb"
)

// TFrame is the summary of one tunnel-protocol frame as seen on the wire.
type TFrame struct {
	ToServer  bool   `json:"to_server"` // ClientToServer (RPC client -> RPC server)
	ID        int64  `json:"id"`
	Kind      string `json:"kind"` // new_stream msg more half_close cancel window_update settings headers close nil
	Size      uint32 `json:"size,omitempty"`     // msg: declared total size; window_update: credit
	DataLen   int    `json:"data_len,omitempty"` // msg/more: bytes of message data in this frame
	Method    string `json:"method,omitempty"`
	Revision  int32  `json:"rev,omitempty"`
	Window    uint32 `json:"window,omitempty"`
	Revisions []int32 `json:"revisions,omitempty"`
	Code      int32  `json:"code,omitempty"`
	StatusMsg string `json:"status_msg,omitempty"`
	Details   int    `json:"details,omitempty"`
	MD        map[string][]string `json:"md,omitempty"`
	HasMD     bool   `json:"has_md,omitempty"`
}

func mdOf(m *tunnelpb.Metadata) (map[string][]string, bool) {
	if m == nil {
		return nil, false
	}
	out := map[string][]string{}
	for k, v := range m.Md {
		out[k] = append([]string(nil), v.GetVal()...)
	}
	return out, true
}

func summarizeFrame(m any) (string, *TFrame) {
	switch f := m.(type) {
	case *tunnelpb.ClientToServer:
		t := &TFrame{ToServer: true, ID: f.StreamId}
		switch x := f.Frame.(type) {
		case *tunnelpb.ClientToServer_NewStream:
			t.Kind = "new_stream"
			t.Method = x.NewStream.GetMethodName()
			t.Revision = int32(x.NewStream.GetProtocolRevision())
			t.Window = x.NewStream.GetInitialWindowSize()
			t.MD, t.HasMD = mdOf(x.NewStream.GetRequestHeaders())
		case *tunnelpb.ClientToServer_RequestMessage:
			t.Kind = "msg"
			t.Size = x.RequestMessage.GetSize()
			t.DataLen = len(x.RequestMessage.GetData())
		case *tunnelpb.ClientToServer_MoreRequestData:
			t.Kind = "more"
			t.DataLen = len(x.MoreRequestData)
		case *tunnelpb.ClientToServer_HalfClose:
			t.Kind = "half_close"
		case *tunnelpb.ClientToServer_Cancel:
			t.Kind = "cancel"
		case *tunnelpb.ClientToServer_WindowUpdate:
			t.Kind = "window_update"
			t.Size = x.WindowUpdate
		default:
			t.Kind = "nil"
		}
		return "c2s", t
	case *tunnelpb.ServerToClient:
		t := &TFrame{ToServer: false, ID: f.StreamId}
		switch x := f.Frame.(type) {
		case *tunnelpb.ServerToClient_Settings:
			t.Kind = "settings"
			t.Window = x.Settings.GetInitialWindowSize()
			for _, r := range x.Settings.GetSupportedProtocolRevisions() {
				t.Revisions = append(t.Revisions, int32(r))
			}
		case *tunnelpb.ServerToClient_ResponseHeaders:
			t.Kind = "headers"
			t.MD, t.HasMD = mdOf(x.ResponseHeaders)
		case *tunnelpb.ServerToClient_ResponseMessage:
			t.Kind = "msg"
			t.Size = x.ResponseMessage.GetSize()
			t.DataLen = len(x.ResponseMessage.GetData())
		case *tunnelpb.ServerToClient_MoreResponseData:
			t.Kind = "more"
			t.DataLen = len(x.MoreResponseData)
		case *tunnelpb.ServerToClient_CloseStream:
			t.Kind = "close"
			t.Code = x.CloseStream.GetStatus().GetCode()
			t.StatusMsg = x.CloseStream.GetStatus().GetMessage()
			t.Details = len(x.CloseStream.GetStatus().GetDetails())
			t.MD, t.HasMD = mdOf(x.CloseStream.GetResponseTrailers())
		case *tunnelpb.ServerToClient_WindowUpdate:
			t.Kind = "window_update"
			t.Size = x.WindowUpdate
		default:
			t.Kind = "nil"
		}
		return "s2c", t
	}
	return fmt.Sprintf("%T", m), nil
}

func (t *TFrame) String() string {
	if t == nil {
		return "<non-tunnel>"
	}
	d := "S>C"
	if t.ToServer {
		d = "C>S"
	}
	switch t.Kind {
	case "new_stream":
		return fmt.Sprintf("%s %d new_stream(%s rev=%d win=%d md=%s)", d, t.ID, t.Method, t.Revision, t.Window, mdString(t.MD))
	case "msg":
		return fmt.Sprintf("%s %d msg(size=%d data=%d)", d, t.ID, t.Size, t.DataLen)
	case "more":
		return fmt.Sprintf("%s %d more(%d)", d, t.ID, t.DataLen)
	case "window_update":
		return fmt.Sprintf("%s %d window_update(%d)", d, t.ID, t.Size)
	case "settings":
		return fmt.Sprintf("%s %d settings(%v win=%d)", d, t.ID, t.Revisions, t.Window)
	case "headers":
		return fmt.Sprintf("%s %d headers(%s)", d, t.ID, mdString(t.MD))
	case "close":
		return fmt.Sprintf("%s %d close(code=%d trailers=%s)", d, t.ID, t.Code, mdString(t.MD))
	}
	return fmt.Sprintf("%s %d %s", d, t.ID, t.Kind)
}

func mdString(md map[string][]string) string {
	keys := make([]string, 0, len(md))
	for k := range md {
		keys = append(keys, k)
	}
	sort.Strings(keys)
	var sb strings.Builder
	sb.WriteString("{")
	for i, k := range keys {
		if i > 0 {
			sb.WriteString(" ")
		}
		fmt.Fprintf(&sb, "%s=%q", k, md[k])
	}
	sb.WriteString("}")
	return sb.String()
}
