package harness

import (
	"context"
	"fmt"
	"strconv"
	"sync"

	"github.com/jhump/grpctunnel"
	"github.com/jhump/grpctunnel/tunnelpb"
	"google.golang.org/genproto/googleapis/rpc/status"
	"google.golang.org/grpc/metadata"
	"google.golang.org/protobuf/proto"
	"google.golang.org/protobuf/types/known/emptypb"
)

// rawPeer is the harness end of a raw-peer run.
type rawPeer struct {
	w  *World
	mu sync.Mutex

	// client role
	cstream rawCStream
	revHang chan struct{} // reverse direction: closed when the raw peer (a network server there) hangs up
	gotSettings bool
	recvDone    bool
	recvErr     error

	// server role
	sstream  tunnelpb.TunnelService_OpenTunnelServer
	idOfTag  map[int]int64
	credit   map[int64]int64 // remaining window per stream id for data the raw server sends (client's advertised window)
	hangUp   chan struct{}

	queue    []func()
	draining bool
}

func serializedMsg(tag int, dir byte, idx int, sizes []int) []byte {
	size := 9
	if idx >= 0 && idx < len(sizes) {
		size = sizes[idx]
	}
	b, _ := proto.Marshal(msgOf(payload(tag, dir, idx, size)))
	return b
}

func (w *World) rawData(f RawFrame, dir byte) []byte {
	if f.DataLen <= 0 {
		return nil
	}
	if f.Zeros || f.Tag < 0 || f.Tag >= len(w.c.RPCs) {
		return make([]byte, f.DataLen)
	}
	sizes := w.c.RPCs[f.Tag].Req
	if dir == 'p' {
		sizes = w.c.RPCs[f.Tag].Resp
	}
	full := serializedMsg(f.Tag, dir, f.Msg, sizes)
	out := make([]byte, f.DataLen)
	if f.Off < len(full) {
		copy(out, full[f.Off:])
	}
	return out
}

func toPBMD(md map[string][]string) *tunnelpb.Metadata {
	if md == nil {
		return nil
	}
	out := &tunnelpb.Metadata{Md: map[string]*tunnelpb.Metadata_Values{}}
	for k, v := range decMD(md) {
		out.Md[k] = &tunnelpb.Metadata_Values{Val: v}
	}
	return out
}

// clientFrame builds a ClientToServer frame from its description.
func (w *World) clientFrame(f RawFrame) *tunnelpb.ClientToServer {
	m := &tunnelpb.ClientToServer{StreamId: f.ID}
	switch f.Kind {
	case "new_stream":
		md := map[string][]string{}
		for k, v := range f.MD {
			md[k] = v
		}
		if f.Tag >= 0 {
			md[tagKey] = []string{strconv.Itoa(f.Tag)}
		}
		method := f.Method
		if method == "<empty>" {
			method = ""
		} else {
			method = decStr(method)
		}
		m.Frame = &tunnelpb.ClientToServer_NewStream{NewStream: &tunnelpb.NewStream{MethodName: method, RequestHeaders: toPBMD(md), ProtocolRevision: tunnelpb.ProtocolRevision(f.Rev), InitialWindowSize: f.Window}}
	case "msg":
		m.Frame = &tunnelpb.ClientToServer_RequestMessage{RequestMessage: &tunnelpb.MessageData{Size: f.Size, Data: w.rawData(f, 'q')}}
	case "more":
		m.Frame = &tunnelpb.ClientToServer_MoreRequestData{MoreRequestData: w.rawData(f, 'q')}
	case "half_close":
		m.Frame = &tunnelpb.ClientToServer_HalfClose{HalfClose: &emptypb.Empty{}}
	case "cancel":
		m.Frame = &tunnelpb.ClientToServer_Cancel{Cancel: &emptypb.Empty{}}
	case "window_update":
		m.Frame = &tunnelpb.ClientToServer_WindowUpdate{WindowUpdate: f.Size}
	case "nil":
	}
	return m
}

// serverFrame builds a ServerToClient frame from its description.
func (w *World) serverFrame(f RawFrame, id int64) *tunnelpb.ServerToClient {
	m := &tunnelpb.ServerToClient{StreamId: id}
	switch f.Kind {
	case "settings":
		s := &tunnelpb.Settings{InitialWindowSize: f.Window}
		for _, r := range f.Revs {
			s.SupportedProtocolRevisions = append(s.SupportedProtocolRevisions, tunnelpb.ProtocolRevision(r))
		}
		m.Frame = &tunnelpb.ServerToClient_Settings{Settings: s}
	case "headers":
		md := toPBMD(f.MD)
		if md == nil {
			md = &tunnelpb.Metadata{}
		}
		m.Frame = &tunnelpb.ServerToClient_ResponseHeaders{ResponseHeaders: md}
	case "msg":
		m.Frame = &tunnelpb.ServerToClient_ResponseMessage{ResponseMessage: &tunnelpb.MessageData{Size: f.Size, Data: w.rawData(f, 'p')}}
	case "more":
		m.Frame = &tunnelpb.ServerToClient_MoreResponseData{MoreResponseData: w.rawData(f, 'p')}
	case "close":
		m.Frame = &tunnelpb.ServerToClient_CloseStream{CloseStream: &tunnelpb.CloseStream{Status: &status.Status{Code: f.Code, Message: f.Text}, ResponseTrailers: toPBMD(f.MD)}}
	case "window_update":
		m.Frame = &tunnelpb.ServerToClient_WindowUpdate{WindowUpdate: f.Size}
	case "nil":
	}
	return m
}

// rawCStream: the raw client's end of the carrier. In a forward tunnel it is the network client's stream; in a reverse
// tunnel the peer that speaks the client role of the tunnel protocol is the network SERVER (OpenReverseTunnel handler), whose
// stream has the same two methods.
type rawCStream interface {
	Send(*tunnelpb.ClientToServer) error
	Recv() (*tunnelpb.ServerToClient, error)
}

// rawRevHandler: the network server of a reverse tunnel whose tunnel-protocol client is the raw script; the real endpoint under
// test is ReverseTunnelServer.Serve.
type rawRevHandler struct {
	tunnelpb.UnimplementedTunnelServiceServer
	w     *World
	ready chan struct{}
}

func (h *rawRevHandler) OpenReverseTunnel(st tunnelpb.TunnelService_OpenReverseTunnelServer) error {
	rp := h.w.raw
	if h.w.c.Raw.Negotiate {
		_ = st.SendHeader(metadata.Pairs("grpctunnel-negotiate", "on"))
	} else {
		_ = st.SendHeader(metadata.MD{})
	}
	rp.cstream = st
	close(h.ready)
	go rp.clientRecvLoop()
	<-rp.revHang
	return nil
}

func (w *World) setupRawClientReverse() bool {
	rp := &rawPeer{w: w, revHang: make(chan struct{})}
	w.raw = rp
	h := &rawRevHandler{w: w, ready: make(chan struct{})}
	w.net.RegisterService(&tunnelpb.TunnelService_ServiceDesc, h) // replaces the real handler registered by setup
	w.mu.Lock()
	t := &tunnelState{idx: 0}
	t.rec = &TunnelRec{Idx: 0, Kind: "rev", Carrier: -1, DoneStep: -1, ServeReturned: -1, Revision: -1}
	w.tunnels = append(w.tunnels, t)
	w.tr.Tunnels = append(w.tr.Tunnels, t.rec)
	w.mu.Unlock()
	ctx := metadata.AppendToOutgoingContext(context.Background(), "x-verif-tunnel", "0")
	t.openCtx, t.cancel = context.WithCancel(ctx)
	opts := w.connOpts(TunnelSpec{Peer: "raw.revserver:1"})
	opts.StripReqNegotiate, opts.StripRespNegotiate = false, false
	t.conn = w.net.Conn(opts)
	rs := &revServer{idx: 0, conn: t.conn}
	rs.rs = grpctunnel.NewReverseTunnelServer(tunnelpb.NewTunnelServiceClient(t.conn), fcOpt(w.c.Cfg.ServerFC)...)
	rs.rs.RegisterService(&svcDesc, &Instance{w: w, idx: 0})
	rs.rs.RegisterService(&svcDescAlt, &Instance{w: w, idx: 0})
	w.mu.Lock()
	w.servers = append(w.servers, rs)
	t.server = rs
	w.mu.Unlock()
	go w.serveLoop(t)
	w.settle()
	select {
	case <-h.ready:
	default:
		t.rec.OpenErr = "the reverse tunnel never reached the raw network server"
		return false
	}
	t.rec.Opened, t.rec.ServeStarted = true, true
	if cs := t.conn.Created(); len(cs) > 0 {
		t.carrier = cs[len(cs)-1]
		t.rec.Carrier = t.carrier.Idx
	}
	return true
}

// ---------------------------------------------------------------------------
// role "client": raw network client against the real tunnel server (forward tunnel)

func (w *World) setupRawClient() bool {
	raw := w.c.Raw
	rp := &rawPeer{w: w}
	w.raw = rp
	w.mu.Lock()
	t := &tunnelState{idx: 0}
	t.rec = &TunnelRec{Idx: 0, Kind: "fwd", Carrier: -1, DoneStep: -1, ServeReturned: -1, Revision: -1}
	w.tunnels = append(w.tunnels, t)
	w.tr.Tunnels = append(w.tr.Tunnels, t.rec)
	w.mu.Unlock()
	ctx := context.Background()
	if raw.Negotiate {
		ctx = metadata.AppendToOutgoingContext(ctx, "grpctunnel-negotiate", "on")
	}
	ctx = metadata.AppendToOutgoingContext(ctx, "x-verif-tunnel", "0")
	t.openCtx, t.cancel = context.WithCancel(ctx)
	opts := w.connOpts(TunnelSpec{Peer: "raw.client:1"})
	opts.StripReqNegotiate, opts.StripRespNegotiate = false, false
	t.conn = w.net.Conn(opts)
	st, err := tunnelpb.NewTunnelServiceClient(t.conn).OpenTunnel(t.openCtx)
	if err != nil {
		t.rec.OpenErr = err.Error()
		return false
	}
	rp.cstream = st
	t.rec.Opened, t.rec.ServeStarted = true, true
	if cs := t.conn.Created(); len(cs) > 0 {
		t.carrier = cs[len(cs)-1]
		t.rec.Carrier = t.carrier.Idx
	}
	go rp.clientRecvLoop()
	return true
}

func (rp *rawPeer) clientRecvLoop() {
	for {
		f, err := rp.cstream.Recv()
		if err != nil {
			rp.mu.Lock()
			rp.recvDone, rp.recvErr = true, err
			rp.mu.Unlock()
			return
		}
		switch x := f.Frame.(type) {
		case *tunnelpb.ServerToClient_Settings:
			rp.mu.Lock()
			rp.gotSettings = true
			rp.mu.Unlock()
		case *tunnelpb.ServerToClient_ResponseMessage:
			rp.clientCredit(f.StreamId, len(x.ResponseMessage.Data))
		case *tunnelpb.ServerToClient_MoreResponseData:
			rp.clientCredit(f.StreamId, len(x.MoreResponseData))
		}
	}
}

// Credit is returned from a goroutine of its own: a conforming peer's receive
// loop never blocks on sending (a reader that waits for its own writes can
// deadlock any pair of bounded pipes, whatever the other end does).
func (rp *rawPeer) clientCredit(id int64, n int) {
	if !rp.w.c.Raw.AutoCredit || n == 0 {
		return
	}
	rp.enqueue(func() {
		_ = rp.cstream.Send(&tunnelpb.ClientToServer{StreamId: id, Frame: &tunnelpb.ClientToServer_WindowUpdate{WindowUpdate: uint32(n)}})
	})
}

func (rp *rawPeer) enqueue(f func()) {
	rp.mu.Lock()
	rp.queue = append(rp.queue, f)
	start := !rp.draining
	rp.draining = true
	rp.mu.Unlock()
	if !start {
		return
	}
	go func() {
		for {
			rp.mu.Lock()
			if len(rp.queue) == 0 {
				rp.draining = false
				rp.mu.Unlock()
				return
			}
			f := rp.queue[0]
			rp.queue = rp.queue[1:]
			rp.mu.Unlock()
			f()
		}
	}()
}

func (w *World) buildRawClientActors() {
	raw := w.c.Raw
	rp := w.raw
	for i := range w.c.RPCs {
		r := &rpcState{idx: i, spec: &w.c.RPCs[i]}
		w.mu.Lock()
		w.rpcs = append(w.rpcs, r)
		w.mu.Unlock()
	}
	a := w.newActor("raw.send", -1, "raw")
	next := 0
	a.enabled = func() bool {
		if raw.WaitSettings && raw.Negotiate {
			rp.mu.Lock()
			ok := rp.gotSettings
			rp.mu.Unlock()
			return ok
		}
		return true
	}
	a.next = func() *opSpec {
		if next >= len(raw.Frames) {
			return nil
		}
		i := next
		next++
		f := raw.Frames[i]
		return &opSpec{kind: "rawsend:" + f.Kind, idx: i, run: func(rec *OpRec) {
			setErr(rec, rp.cstream.Send(w.clientFrame(f)))
		}}
	}
	w.startActor(a)
}

// rawClientHangUp: the raw client half-closes the carrier (a clean hang-up).
func (w *World) rawHangUp() {
	w.nextStep()
	switch w.c.Raw.Role {
	case "client":
		if w.raw.revHang != nil {
			close(w.raw.revHang) // the raw network server's handler returns: the carrier ends with status OK
		} else if cs, ok := w.raw.cstream.(interface{ CloseSend() error }); ok {
			_ = cs.CloseSend()
		}
	case "server":
		close(w.raw.hangUp)
	}
	w.settle()
	w.drain()
}

// ---------------------------------------------------------------------------
// role "server": raw network server against the real tunnel client (forward tunnel)

type rawServer struct {
	tunnelpb.UnimplementedTunnelServiceServer
	w *World
}

func (rs *rawServer) OpenTunnel(st tunnelpb.TunnelService_OpenTunnelServer) error {
	w := rs.w
	raw := w.c.Raw
	rp := w.raw
	rp.sstream = st
	if raw.Negotiate {
		_ = st.SendHeader(metadata.Pairs("grpctunnel-negotiate", "on"))
	} else {
		_ = st.SendHeader(metadata.MD{})
	}
	if s := raw.Settings; s != nil && raw.Negotiate {
		if s.EndFirst {
			return nil
		}
		if s.WrongKind != "" {
			_ = st.Send(w.serverFrame(RawFrame{Kind: s.WrongKind, Size: 7, Tag: -1}, s.ID))
		} else if !s.Omit {
			_ = st.Send(w.serverFrame(RawFrame{Kind: "settings", Revs: s.Revisions, Window: s.Window}, s.ID))
			if s.Twice {
				_ = st.Send(w.serverFrame(RawFrame{Kind: "settings", Revs: s.Revisions, Window: s.Window}, s.ID))
			}
		}
	}
	// receive loop: learn stream ids, track the client's window, credit request data
	go func() {
		for {
			f, err := st.Recv()
			if err != nil {
				rp.mu.Lock()
				rp.recvDone, rp.recvErr = true, err
				rp.mu.Unlock()
				return
			}
			switch x := f.Frame.(type) {
			case *tunnelpb.ClientToServer_NewStream:
				tag := -1
				if v := x.NewStream.GetRequestHeaders().GetMd()[tagKey]; v != nil && len(v.Val) > 0 {
					tag, _ = strconv.Atoi(v.Val[0])
				}
				rp.mu.Lock()
				rp.idOfTag[tag] = f.StreamId
				rp.credit[f.StreamId] = int64(x.NewStream.InitialWindowSize)
				if x.NewStream.ProtocolRevision == 0 {
					rp.credit[f.StreamId] = 1 << 40
				}
				rp.mu.Unlock()
			case *tunnelpb.ClientToServer_WindowUpdate:
				rp.mu.Lock()
				rp.credit[f.StreamId] += int64(x.WindowUpdate)
				rp.mu.Unlock()
			case *tunnelpb.ClientToServer_RequestMessage:
				rp.serverCredit(f.StreamId, len(x.RequestMessage.Data))
			case *tunnelpb.ClientToServer_MoreRequestData:
				rp.serverCredit(f.StreamId, len(x.MoreRequestData))
			}
		}
	}()
	<-rp.hangUp
	if raw.HangUpErr {
		return fmt.Errorf("raw server going away")
	}
	return nil
}

func (rp *rawPeer) serverCredit(id int64, n int) {
	if !rp.w.c.Raw.AutoCredit || n == 0 {
		return
	}
	rp.enqueue(func() {
		_ = rp.sstream.Send(&tunnelpb.ServerToClient{StreamId: id, Frame: &tunnelpb.ServerToClient_WindowUpdate{WindowUpdate: uint32(n)}})
	})
}

func (w *World) setupRawServer() bool {
	rp := &rawPeer{w: w, idOfTag: map[int]int64{}, credit: map[int64]int64{}, hangUp: make(chan struct{})}
	w.raw = rp
	w.net = NewNet()
	tunnelpb.RegisterTunnelServiceServer(w.net, &rawServer{w: w})
	w.mu.Lock()
	t := &tunnelState{idx: 0}
	t.rec = &TunnelRec{Idx: 0, Kind: "fwd", Carrier: -1, DoneStep: -1, ServeReturned: -1, Revision: -1}
	w.tunnels = append(w.tunnels, t)
	w.tr.Tunnels = append(w.tr.Tunnels, t.rec)
	w.mu.Unlock()
	md := metadata.Pairs("x-verif-tunnel", "0")
	t.openCtx, t.cancel = context.WithCancel(metadata.NewOutgoingContext(context.Background(), md))
	opts := w.connOpts(TunnelSpec{})
	opts.StripReqNegotiate, opts.StripRespNegotiate = false, false
	t.conn = w.net.Conn(opts)
	done := make(chan struct{})
	var ch grpctunnel.TunnelChannel
	var err error
	go func() {
		defer close(done)
		defer func() {
			if r := recover(); r != nil {
				w.mu.Lock()
				w.tr.Panics = append(w.tr.Panics, fmt.Sprintf("Start: %v", r))
				w.mu.Unlock()
			}
		}()
		ch, err = grpctunnel.NewChannel(tunnelpb.NewTunnelServiceClient(t.conn), fcOpt(w.c.Cfg.ClientFC)...).Start(t.openCtx)
	}()
	w.settle()
	select {
	case <-done:
	default:
		// Start is still waiting (e.g. for a settings frame that never comes)
		t.rec.OpenErr = "Start did not return"
		w.tr.label("start_blocked")
		if cs := t.conn.Created(); len(cs) > 0 {
			t.carrier = cs[len(cs)-1]
			t.rec.Carrier = t.carrier.Idx
		}
		return true
	}
	if cs := t.conn.Created(); len(cs) > 0 {
		t.carrier = cs[len(cs)-1]
		t.rec.Carrier = t.carrier.Idx
	}
	if err != nil {
		t.rec.OpenErr = err.Error()
		return true
	}
	t.ch = ch
	t.rec.Opened, t.rec.ServeStarted = true, true
	return true
}

func (w *World) buildRawServerActors() {
	raw := w.c.Raw
	rp := w.raw
	w.buildActors() // caller actors for c.RPCs run against the real client
	for ri := range raw.Replies {
		rep := raw.Replies[ri]
		a := w.newActor(fmt.Sprintf("raw.reply%d", rep.Tag), rep.Tag, "raw")
		next := 0
		idOf := func() (int64, bool) {
			rp.mu.Lock()
			defer rp.mu.Unlock()
			id, ok := rp.idOfTag[rep.Tag]
			return id, ok
		}
		a.enabled = func() bool {
			if next >= len(rep.Frames) {
				return true
			}
			f := rep.Frames[next]
			if f.ForceID {
				return true
			}
			id, ok := idOf()
			if !ok {
				return false
			}
			if (f.Kind == "msg" || f.Kind == "more") && !f.NoWindow {
				rp.mu.Lock()
				c := rp.credit[id]
				rp.mu.Unlock()
				return int64(f.DataLen) <= c
			}
			return true
		}
		a.next = func() *opSpec {
			if next >= len(rep.Frames) {
				return nil
			}
			i := next
			next++
			f := rep.Frames[i]
			return &opSpec{kind: "rawsend:" + f.Kind, idx: i, run: func(rec *OpRec) {
				id := f.ID
				if !f.ForceID {
					id, _ = idOf()
				}
				if f.Kind == "msg" || f.Kind == "more" {
					rp.mu.Lock()
					rp.credit[id] -= int64(f.DataLen)
					rp.mu.Unlock()
				}
				setErr(rec, rp.sstream.Send(w.serverFrame(f, id)))
			}}
		}
		w.startActor(a)
	}
	if len(raw.Extra) > 0 {
		a := w.newActor("raw.extra", -1, "raw")
		next := 0
		a.next = func() *opSpec {
			if next >= len(raw.Extra) {
				return nil
			}
			i := next
			next++
			f := raw.Extra[i]
			return &opSpec{kind: "rawsend:" + f.Kind, idx: i, run: func(rec *OpRec) {
				setErr(rec, rp.sstream.Send(w.serverFrame(f, f.ID)))
			}}
		}
		w.startActor(a)
	}
}
