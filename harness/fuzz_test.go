package harness

// Native (coverage-guided) fuzz targets, thorough tier only. Each target decodes the
// fuzzer's bytes into the same Case structure the rapid generators produce, runs it in
// the simulation, and applies the same monitors: the semantic oracle is inside the
// target. On a violation the decoded case is written to $VERIF_FUZZ_OUT as a replay
// file before the target fails, so the driver can print VIOLATION ... replay=<path>.
//
//   FuzzRawClientFrames  free-form frame histories, raw client vs the real tunnel server   (C09, C16)
//   FuzzRawServerFrames  free-form reply programs, raw server vs the real tunnel client     (C09, C16)
//   FuzzRawClientGrammar fuzzer bytes drive the grammar+deviation generator (client role)   (C09)
//   FuzzRawServerGrammar the same for the server role                                      (C09)
//   FuzzTimeout          grpc-timeout header values through the public API                 (C18)

import (
	"encoding/json"
	"fmt"
	"math"
	"os"
	"path/filepath"
	"runtime"
	"strings"
	"sync"
	"testing"

	"pgregory.net/rapid"
)

var fuzzOnce sync.Once

func fuzzInit() {
	fuzzOnce.Do(func() {
		// the simulation's quiescence polling needs one P (see pollQuiescent)
		runtime.GOMAXPROCS(1)
	})
}

type byteSrc struct {
	b []byte
	i int
}

func (r *byteSrc) byte() byte {
	if r.i >= len(r.b) {
		return 0
	}
	v := r.b[r.i]
	r.i++
	return v
}
func (r *byteSrc) more() bool { return r.i < len(r.b) }

// fuzzJudge runs the case and the monitors; violations of other properties than those listed are ignored.
func fuzzJudge(t *testing.T, target string, c *Case, monitors []Monitor) {
	if os.Getenv("VERIF_FUZZ_DUMP") != "" {
		fmt.Printf("VERIF_FUZZ_CASE %s\n", c.JSON())
	}
	currentCase.Store(c)
	defer currentCase.Store(nil)
	tr := runInBubble(t, c)
	var vs []Violation
	for _, m := range monitors {
		vs = append(vs, m(c, tr)...)
	}
	if len(vs) == 0 {
		return
	}
	path := ""
	if dir := os.Getenv("VERIF_FUZZ_OUT"); dir != "" {
		_ = os.MkdirAll(dir, 0o755)
		rec := map[string]any{"prop": vs[0].Prop, "part": "fuzz:" + target, "violations": vs, "case": json.RawMessage(c.JSON()), "trace_excerpt": tr.Excerpt(120)}
		b, _ := json.Marshal(rec)
		path = filepath.Join(dir, fmt.Sprintf("%s-%s.json", vs[0].Prop, c.Hash()))
		_ = os.WriteFile(path, b, 0o644)
	}
	t.Fatalf("VIOLATION %s/%s: %s replay=%s", vs[0].Prop, vs[0].Class, vs[0].Details, path)
}

var fuzzIDs = []int64{0, 1, 2, 3, 4, 5, 6, 7, -1, -5, 1 << 62, math.MaxInt64}
var fuzzMethods = []string{"/verif.Svc/Unary", "/verif.Svc/CStream", "/verif.Svc/SStream", "/verif.Svc/Bidi", "/verif.Svc/Nope", "<empty>", "nonsense", "/nope.Svc/Unary"}
var fuzzShapes = []string{"unary", "cstream", "sstream", "bidi", "unary", "unary", "unary", "unary"}
var fuzzLens = []int{0, 1, 3, 5, 7, 100, 16383, 16384, 16385, 40000, 65536, 70000}
var fuzzCredits = []uint32{0, 1, 7, 16384, 65536, 1 << 31, 1<<32 - 1}

// decodeRawClient: bytes -> a raw-client history of arbitrary frames over a small id space, salted
// with complete conforming RPCs ("macros") so deep states are reachable, closed by a conforming probe.
func decodeRawClient(data []byte) *Case {
	r := &byteSrc{b: data}
	c := &Case{Prop: "fuzz_raw_client"}
	cfg := r.byte()
	c.Cfg = Config{Dir: "fwd", ClientFC: "on", ServerFC: "on"}
	if cfg&6 == 6 {
		c.Cfg.ServerFC = "off"
	}
	c.Cfg.Cap = []int{0, 0, 2, 8}[(cfg>>3)&3]
	raw := &Raw{Role: "client", Negotiate: cfg&1 == 0, WaitSettings: true, Dev: []string{"fuzz"}}
	c.Raw = raw
	fc := raw.Negotiate && c.Cfg.ServerFC != "off"
	raw.AutoCredit = fc
	rev, win := int32(1), uint32(65536)
	if !fc {
		rev, win = 0, 0
	}
	type open struct {
		id  int64
		tag int
	}
	var opened []open
	touched := map[int64]int{} // frames that target the id, other than its own conforming sequence
	clean := map[int]bool{}
	maxID := int64(-1)
	seenAny := false
	newRPC := func(shape string) int {
		tag := len(c.RPCs)
		sp := RPC{Shape: shape, Role: "raw", HWaitRecv: true, Req: []int{3}, Resp: []int{5}}
		if reqStreams(shape) {
			sp.Req = []int{3, 300}
		}
		if shape != "unary" {
			for i := range sp.Resp {
				sp.HOps = append(sp.HOps, MDOp{Kind: "send", Idx: i})
			}
		}
		c.RPCs = append(c.RPCs, sp)
		return tag
	}
	pickID := func() (int64, int) {
		sel := r.byte()
		if len(opened) > 0 && sel < 200 {
			o := opened[int(sel)%len(opened)]
			return o.id, o.tag
		}
		return fuzzIDs[int(sel)%len(fuzzIDs)], -1
	}
	note := func(id int64) {
		touched[id]++
	}
	for r.more() && len(raw.Frames) < 60 {
		switch op := r.byte() % 12; op {
		case 0: // new_stream, arbitrary
			id := fuzzIDs[int(r.byte())%len(fuzzIDs)]
			if r.byte()&1 == 0 && maxID < math.MaxInt64-2 {
				id = maxID + 1 + int64(r.byte()%3)
			}
			mi := int(r.byte()) % len(fuzzMethods)
			tag := newRPC(fuzzShapes[mi])
			f := RawFrame{ID: id, Tag: tag, Kind: "new_stream", Method: fuzzMethods[mi], Rev: rev, Window: win}
			switch r.byte() % 10 {
			case 0:
				f.Rev = 0
			case 1:
				f.Rev = 1
			case 2:
				f.Rev = 2
			case 3:
				f.Rev = -1
			case 4:
				f.Window = 0
			case 5:
				f.Window = 1
			case 6:
				f.Window = 1<<32 - 1
			}
			raw.Frames = append(raw.Frames, f)
			note(id)
			opened = append(opened, open{id, tag})
			if !seenAny || id > maxID {
				maxID, seenAny = id, true
			}
		case 1, 9: // message envelope
			id, tag := pickID()
			n := fuzzLens[int(r.byte())%len(fuzzLens)]
			f := RawFrame{ID: id, Tag: tag, Kind: "msg", DataLen: n, Size: uint32(n), Zeros: true}
			switch r.byte() % 8 {
			case 0:
				f.Size++
			case 1:
				if f.Size > 0 {
					f.Size--
				}
			case 2:
				f.Size *= 2
			case 3:
				f.Size = hugeDeclared
			case 4:
				f.Size = 1<<32 - 1
			}
			raw.Frames = append(raw.Frames, f)
			note(id)
		case 2, 10: // continuation
			id, tag := pickID()
			raw.Frames = append(raw.Frames, RawFrame{ID: id, Tag: tag, Kind: "more", DataLen: fuzzLens[int(r.byte())%len(fuzzLens)], Zeros: true})
			note(id)
		case 3:
			id, tag := pickID()
			raw.Frames = append(raw.Frames, RawFrame{ID: id, Tag: tag, Kind: "half_close"})
			note(id)
		case 4:
			id, tag := pickID()
			raw.Frames = append(raw.Frames, RawFrame{ID: id, Tag: tag, Kind: "cancel"})
			note(id)
		case 5:
			id, tag := pickID()
			raw.Frames = append(raw.Frames, RawFrame{ID: id, Tag: tag, Kind: "window_update", Size: fuzzCredits[int(r.byte())%len(fuzzCredits)]})
			note(id)
		case 6:
			id, tag := pickID()
			raw.Frames = append(raw.Frames, RawFrame{ID: id, Tag: tag, Kind: "nil"})
			note(id)
		default: // 7, 8, 11: a complete conforming RPC on a fresh id
			if maxID >= math.MaxInt64-2 {
				continue
			}
			shape := fuzzShapes[int(r.byte())%4]
			tag := newRPC(shape)
			id := maxID + 1
			maxID, seenAny = id, true
			st := &convStream{tag: tag, id: id}
			conformingFrames(st, &c.RPCs[tag], rev, win)
			raw.Frames = append(raw.Frames, st.frames...)
			opened = append(opened, open{id, tag})
			clean[tag] = true
			touched[id] -= 0
		}
	}
	// a conforming RPC stays clean only if no other frame targeted its id
	for _, o := range opened {
		if clean[o.tag] && touched[o.id] > 0 {
			clean[o.tag] = false
		}
	}
	if maxID < math.MaxInt64-2 {
		tag := newRPC("unary")
		c.RPCs[tag].Role = "raw_probe"
		st := &convStream{tag: tag, id: maxID + 1}
		conformingFrames(st, &c.RPCs[tag], rev, win)
		raw.Frames = append(raw.Frames, st.frames...)
		clean[tag] = true
	}
	for tag := range c.RPCs {
		raw.Expect = append(raw.Expect, RawExpect{Tag: tag, Clean: clean[tag], Why: "fuzz"})
	}
	// schedule: the remaining bytes, else fair draining
	for r.more() && len(c.Tape) < 64 {
		c.Tape = append(c.Tape, int(r.byte()))
	}
	return c
}

func FuzzRawClientFrames(f *testing.F) {
	f.Add([]byte{})
	f.Add([]byte{0, 7, 0, 7, 1, 7, 3})
	f.Add([]byte{0, 0, 1, 0, 0, 0, 1, 0, 5, 0, 3, 0})              // new_stream 1, msg, half_close
	f.Add([]byte{0, 0, 8, 0, 0, 0})                                // negative first id
	f.Add([]byte{0, 7, 0, 0, 11, 0, 0, 0, 7, 1})                   // MaxInt64 id after a valid RPC
	f.Add([]byte{0, 7, 0, 1, 0, 10, 3, 2, 0, 10})                  // huge announced size on a live stream
	f.Add([]byte{0, 7, 3, 5, 0, 6, 6, 0, 6, 4, 0, 7, 1})           // window updates 2^32-1, cancel, another RPC
	f.Add([]byte{1, 7, 0, 7, 1, 1, 0, 5, 0})                       // revision-zero client
	f.Add([]byte{0, 0, 1, 0, 5, 0, 0, 0, 1, 0, 5, 0})              // same id twice, empty method
	f.Add([]byte{6, 7, 2, 1, 0, 11, 4, 1, 0, 11, 4, 1, 0, 11, 4}) // window overrun with FC disabled on the server
	f.Fuzz(func(t *testing.T, data []byte) {
		fuzzInit()
		if len(data) > 256 {
			t.Skip()
		}
		c := decodeRawClient(data)
		fuzzJudge(t, "FuzzRawClientFrames", c, []Monitor{monRawClient("C09"), monRawClient("C16")})
	})
}

// decodeRawServer: bytes -> a raw-server case: settings variant, 1-3 RPCs issued by the real client,
// arbitrary reply programs and unsolicited frames.
func decodeRawServer(data []byte) *Case {
	r := &byteSrc{b: data}
	c := &Case{Prop: "fuzz_raw_server"}
	cfg := r.byte()
	c.Cfg = Config{Dir: "fwd", ClientFC: "on", ServerFC: "on"}
	if cfg&6 == 6 {
		c.Cfg.ClientFC = "off"
	}
	c.Cfg.Cap = []int{0, 0, 2, 8}[(cfg>>3)&3]
	raw := &Raw{Role: "server", Negotiate: true, Dev: []string{"fuzz"}, TunnelLevel: "?"}
	c.Raw = raw
	st := &RawSettings{ID: -1, Revisions: []int32{0, 1}, Window: 65536}
	switch r.byte() % 16 {
	case 0:
		raw.Negotiate = false
	case 1:
		st.Revisions, st.Window = []int32{0}, 0
	case 2:
		st.Window = []uint32{0, 1, 100, 16385, 1<<32 - 1}[int(r.byte())%5]
	case 3:
		st.ID = int64(int8(r.byte()))
	case 4:
		st.Revisions = [][]int32{{}, {7}, {1, 0}, {0, 7, 1, 1}, {-1}, {2, 1}}[int(r.byte())%6]
	case 5:
		st.WrongKind = []string{"headers", "msg", "close", "window_update", "nil"}[int(r.byte())%5]
	case 6:
		st.EndFirst = true
	case 7:
		st.Twice = true
	}
	raw.Settings = st
	fc := raw.Negotiate && c.Cfg.ClientFC != "off" && containsRev(st.Revisions, 1)
	raw.AutoCredit = fc
	raw.HangUpErr = cfg&64 != 0
	n := 1 + int(r.byte())%3
	for i := 0; i < n; i++ {
		shape := fuzzShapes[int(r.byte())%4]
		sp := RPC{Shape: shape, Role: "raw", Req: []int{[]int{0, 5, 300, 20000, 70000}[int(r.byte())%5]}, Resp: []int{5}}
		if reqStreams(shape) && r.byte()&1 == 0 {
			sp.Req = append(sp.Req, 300)
		}
		if fc && st.Window < 1000 {
			for j := range sp.Req {
				if sp.Req[j] > 300 {
					sp.Req[j] = 300
				}
			}
		}
		c.RPCs = append(c.RPCs, sp)
	}
	frame := func(tag int) RawFrame {
		f := RawFrame{Tag: tag}
		switch r.byte() % 10 {
		case 0, 1:
			f.Kind = "headers"
			if r.byte()&1 == 0 {
				f.MD = map[string][]string{"k": {"v"}}
			}
		case 2, 3:
			n := fuzzLens[int(r.byte())%len(fuzzLens)]
			f.Kind, f.DataLen, f.Size, f.Zeros = "msg", n, uint32(n), true
			switch r.byte() % 8 {
			case 0:
				f.Size++
			case 1:
				if f.Size > 0 {
					f.Size--
				}
			case 2:
				f.Size = hugeDeclared
			case 3:
				f.Size = 1<<32 - 1
			}
			f.NoWindow = r.byte()&3 == 0
		case 4:
			f.Kind, f.DataLen, f.Zeros = "more", fuzzLens[int(r.byte())%len(fuzzLens)], true
			f.NoWindow = r.byte()&3 == 0
		case 5, 6:
			f.Kind, f.Code = "close", int32(r.byte()%18)
			if f.Code == 17 {
				f.Code = 99
			}
		case 7:
			f.Kind, f.Size = "window_update", fuzzCredits[int(r.byte())%len(fuzzCredits)]
		case 8:
			f.Kind = "nil"
		case 9:
			f.Kind, f.Revs, f.Window = "settings", []int32{0, 1}, 65536
		}
		switch r.byte() % 8 {
		case 0:
			f.ForceID, f.ID = true, 1<<40+int64(r.byte()%4)
		case 1:
			f.ForceID, f.ID = true, int64(int8(r.byte()))
		}
		return f
	}
	for tag := 0; tag < n; tag++ {
		var fs []RawFrame
		if r.byte()&3 != 0 {
			fs = conformingReply(tag, &c.RPCs[tag]) // start from the conforming reply, then perturb
			k := int(r.byte()) % 4
			for j := 0; j < k; j++ {
				at := int(r.byte()) % (len(fs) + 1)
				fs = append(fs[:at], append([]RawFrame{frame(tag)}, fs[at:]...)...)
			}
			if r.byte()&7 == 0 && len(fs) > 0 {
				at := int(r.byte()) % len(fs)
				fs = append(fs[:at], fs[at+1:]...)
			}
		} else {
			k := int(r.byte()) % 8
			for j := 0; j < k; j++ {
				fs = append(fs, frame(tag))
			}
		}
		raw.Replies = append(raw.Replies, RawReply{Tag: tag, Frames: fs})
		raw.Expect = append(raw.Expect, RawExpect{Tag: tag, Clean: false, Why: "fuzz"})
	}
	for k := int(r.byte()) % 3; k > 0; k-- {
		f := frame(-1)
		if !f.ForceID {
			f.ForceID, f.ID = true, 1<<40
		}
		raw.Extra = append(raw.Extra, f)
	}
	// the closing conforming RPC
	tag := len(c.RPCs)
	c.RPCs = append(c.RPCs, RPC{Shape: "unary", Req: []int{3}, Resp: []int{5}, Role: "raw_probe"})
	raw.Replies = append(raw.Replies, RawReply{Tag: tag, Frames: conformingReply(tag, &c.RPCs[tag])})
	raw.Expect = append(raw.Expect, RawExpect{Tag: tag, Clean: false, Why: "fuzz"})
	for r.more() && len(c.Tape) < 64 {
		c.Tape = append(c.Tape, int(r.byte()))
	}
	return c
}

func FuzzRawServerFrames(f *testing.F) {
	f.Add([]byte{})
	f.Add([]byte{0, 8, 0, 0, 0, 1})
	f.Add([]byte{0, 8, 1, 3, 4, 1, 1, 2, 10, 2, 0, 0})
	f.Add([]byte{0, 4, 0, 0, 0, 0, 1})
	f.Add([]byte{0, 5, 2, 0, 0, 0, 1})
	f.Add([]byte{0, 8, 2, 1, 2, 0, 3, 1, 0, 1, 0, 0, 4, 5, 0, 1, 2, 11, 3, 0, 4})
	f.Add([]byte{6, 8, 0, 0, 2, 0, 0, 5, 2, 11, 7, 1, 2, 11, 7, 1})
	f.Fuzz(func(t *testing.T, data []byte) {
		fuzzInit()
		if len(data) > 256 {
			t.Skip()
		}
		c := decodeRawServer(data)
		fuzzJudge(t, "FuzzRawServerFrames", c, []Monitor{monRawServer("C09"), monRawServer("C16")})
	})
}

// grammar-driven targets: the fuzzer's bytes are the random source of the rapid generators
func fuzzGrammar(f *testing.F, name string, gen func(*rapid.T) *Case, monitors []Monitor) {
	f.Add([]byte{})
	f.Add([]byte{1, 2, 3, 4, 5, 6, 7, 8, 9, 10, 11, 12, 13, 14, 15, 16})
	f.Add([]byte(strings.Repeat("\xff", 64)))
	f.Fuzz(func(t *testing.T, data []byte) {
		fuzzInit()
		rapid.MakeFuzz(func(rt *rapid.T) {
			c := gen(rt)
			fuzzJudge(t, name, c, monitors)
		})(t, data)
	})
}

func FuzzRawClientGrammar(f *testing.F) {
	fuzzGrammar(f, "FuzzRawClientGrammar", genRawClient, []Monitor{monRawClient("C09")})
}

func FuzzRawServerGrammar(f *testing.F) {
	fuzzGrammar(f, "FuzzRawServerGrammar", genRawServer, []Monitor{monRawServer("C09")})
}

// FuzzTimeout: up to three grpc-timeout values (separated by a zero byte) on one tunneled call.
func FuzzTimeout(f *testing.F) {
	for _, s := range []string{"", "1S", "99999999H", "100000000n", "2562047H", "2562048H", "-1S", "+5m", "0n", "00000001u", "5", "S", "1s", "1H\x001M", "9223372036S", "18446744073709551616n", "1\xc2\xb5", " 1S", "1S "} {
		f.Add([]byte(s))
	}
	f.Fuzz(func(t *testing.T, data []byte) {
		fuzzInit()
		if len(data) > 64 {
			t.Skip()
		}
		c := &Case{Prop: "fuzz_timeout"}
		c.Cfg = Config{Dir: "fwd", ClientFC: "on", ServerFC: "on"}
		r := RPC{Shape: "unary", Req: []int{3}, Resp: []int{5}, Role: "timeout"}
		for i, v := range strings.Split(string(data), "\x00") {
			if i >= 3 {
				break
			}
			r.GrpcTimeout = append(r.GrpcTimeout, encStr([]byte(strings.ToValidUTF8(v, "?"))))
		}
		c.RPCs = []RPC{r, {Shape: "unary", Req: []int{3}, Resp: []int{5}, Role: "baseline"}}
		fuzzJudge(t, "FuzzTimeout", c, []Monitor{monC18})
	})
}
