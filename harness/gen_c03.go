package harness

import (
	"fmt"

	"pgregory.net/rapid"
)

var disturberKinds = []string{
	"handler_error", "unknown_service", "unknown_method", "no_slash", "empty_method",
	"after_shutdown", "cancelled", "expired", "caller_never_reads", "handler_never_reads",
	"invalid_metadata", "invalid_method", "invalid_header", "invalid_trailer", "invalid_creds_metadata",
}

// genBystander: a plain RPC that must run to completion with all its data.
func genBystander(t *rapid.T, label string) RPC {
	r := RPC{Shape: genShape(t, label+".shape"), Role: "bystander", HWaitRecv: true}
	if r.Shape == "unary" && rapid.Bool().Draw(t, label+".via") {
		r.Via = "stream"
	}
	sz := func(l string, min, max int) []int {
		n := rapid.IntRange(min, max).Draw(t, l+".n")
		out := make([]int, n)
		for i := range out {
			out[i] = rapid.SampledFrom([]int{0, 5, 300, 16381, 20000, 65532, 70000, 150000}).Draw(t, fmt.Sprintf("%s[%d]", l, i))
		}
		return out
	}
	if reqStreams(r.Shape) {
		r.Req = sz(label+".req", 0, 4)
	} else {
		r.Req = sz(label+".req", 1, 1)
	}
	if respStreams(r.Shape) {
		r.Resp = sz(label+".resp", 0, 4)
	} else {
		r.Resp = sz(label+".resp", 1, 1)
	}
	if r.Shape != "unary" {
		for i := range r.Resp {
			r.HOps = append(r.HOps, MDOp{Kind: "send", Idx: i})
		}
	}
	r.Fuse = genFuse(t, label)
	return r
}

// genDisturber draws the disturbing RPC; it may add an event to the case.
func genDisturber(t *rapid.T, c *Case, kind string) RPC {
	d := genBystander(t, "disturber")
	d.Role = "disturber:" + kind
	switch kind {
	case "handler_error":
		d.Code = rapid.IntRange(1, 16).Draw(t, "d.code")
		d.Msg = "disturber failed"
		if !respStreams(d.Shape) {
			d.Resp, d.HOps = nil, nil
		} else if len(d.HOps) > 0 {
			d.HOps = d.HOps[:rapid.IntRange(0, len(d.HOps)).Draw(t, "d.sends_before_error")]
		}
	case "unknown_service":
		d.Method = "/nope.Svc/Unary"
	case "unknown_method":
		d.Method = "/verif.Svc/Nope"
	case "no_slash":
		d.Method = rapid.SampledFrom([]string{"nonsense", "/nonsense", "/"}).Draw(t, "d.method")
	case "empty_method":
		d.Method = "<empty>"
	case "after_shutdown":
		kindEv := "initiate_shutdown"
		if c.Cfg.Dir == "rev" {
			kindEv = "graceful_stop"
		}
		c.Events = append(c.Events, Event{Kind: kindEv, After: rapid.IntRange(0, 40).Draw(t, "d.shutdown_at"), AtStep: true})
		d.AfterEvent = len(c.Events)
	case "cancelled":
		c.Events = append(c.Events, Event{Kind: "cancel_rpc", Target: -1, After: rapid.IntRange(0, 40).Draw(t, "d.cancel_at")})
	case "expired":
		d.Timeout = 50
		c.Events = append(c.Events, Event{Kind: "advance", Ms: 100, After: rapid.IntRange(0, 40).Draw(t, "d.expire_at")})
	case "caller_never_reads":
		d.Shape = rapid.SampledFrom([]string{"sstream", "bidi"}).Draw(t, "d.shape2")
		d.Via = ""
		if !reqStreams(d.Shape) {
			d.Req = []int{5}
		}
		n := rapid.IntRange(2, 8).Draw(t, "d.windows")
		d.Resp, d.HOps = nil, nil
		for i := 0; i < n; i++ {
			d.Resp = append(d.Resp, rapid.SampledFrom([]int{40000, 65532, 70000}).Draw(t, fmt.Sprintf("d.resp%d", i)))
			d.HOps = append(d.HOps, MDOp{Kind: "send", Idx: i})
		}
		d.StallRecv = true
	case "handler_never_reads":
		d.Shape = rapid.SampledFrom([]string{"cstream", "bidi"}).Draw(t, "d.shape2")
		d.Via = ""
		if !respStreams(d.Shape) {
			d.Resp = []int{5}
			d.HOps = []MDOp{{Kind: "send", Idx: 0}}
		}
		n := rapid.IntRange(2, 8).Draw(t, "d.windows")
		d.Req = nil
		for i := 0; i < n; i++ {
			d.Req = append(d.Req, rapid.SampledFrom([]int{40000, 65532, 70000}).Draw(t, fmt.Sprintf("d.req%d", i)))
		}
		d.HStallRecv = true
	case "invalid_metadata":
		d.ReqMD = map[string][]string{rapid.SampledFrom([]string{"k-bin", "plain"}).Draw(t, "d.badkey"): {"ok", "hex:fffe"}}
	case "invalid_creds_metadata":
		// the bytes that cannot be encoded come from per-RPC credentials rather than from the outgoing context
		d.Creds = &Creds{MD: map[string]string{rapid.SampledFrom([]string{"tok-bin", "tok"}).Draw(t, "d.credkey"): "hex:fffe"}}
	case "invalid_method":
		d.Method = encStr([]byte("/verif.Svc/Un\xffary"))
	case "invalid_header":
		d.HReturnMDErr = rapid.Bool().Draw(t, "d.return_refusal") // many handlers simply return the error they were given
		d.HOps = append([]MDOp{{Kind: rapid.SampledFrom([]string{"sethdr", "sendhdr"}).Draw(t, "d.hdrop"), MD: map[string][]string{"h-bin": {"hex:fffe"}}}}, d.HOps...)
	case "invalid_trailer":
		d.HReturnMDErr = rapid.Bool().Draw(t, "d.return_refusal")
		d.HOps = append(d.HOps, MDOp{Kind: "settrl", MD: map[string][]string{"t-bin": {"hex:c328"}}})
	}
	return d
}

func genC03(t *rapid.T) *Case {
	c := &Case{Prop: "c03"}
	c.Cfg = genConfig(t, []string{"fwd", "fwd", "rev"})
	nb := rapid.IntRange(1, 4).Draw(t, "nbystanders")
	for i := 0; i < nb; i++ {
		c.RPCs = append(c.RPCs, genBystander(t, fmt.Sprintf("b%d", i)))
	}
	kind := rapid.SampledFrom(disturberKinds).Draw(t, "disturber.kind")
	d := genDisturber(t, c, kind)
	pos := rapid.IntRange(0, len(c.RPCs)).Draw(t, "disturber.pos")
	c.RPCs = append(c.RPCs[:pos], append([]RPC{d}, c.RPCs[pos:]...)...)
	for i := range c.Events {
		if c.Events[i].Kind == "cancel_rpc" && c.Events[i].Target == -1 {
			c.Events[i].Target = pos
		}
	}
	c.Tape = genTape(t, 0, 300)
	return c
}
