package harness

import (
	"context"
	"fmt"
	"regexp"
	"runtime"
	"strings"
	"sync"
	"sync/atomic"
	"testing"
	"time"

	"github.com/jhump/grpctunnel"
	"pgregory.net/rapid"
)

// The parallel flow-control engine: a real sender (flow_control.go, through the verif
// accessors) driven by one sending goroutine and 1-3 goroutines that play the peer's
// receive loop, all free-running on many Ps. It reaches interleavings inside windows
// that have no yield point (two adjacent instructions of updateWindow, say), which the
// controlled scheduler of fcx.go cannot place.
//
// The oracle does not use time as a verdict. A lack of progress only triggers a look
// at the state: when every byte sent has been credited back, no updateWindow call is
// under way, the window is positive and the sending goroutine is parked in its select,
// nothing can ever wake it - that is a lost wake-up, however fast or slow the machine.

type ParCase struct {
	Window   uint32 `json:"window"`
	Msgs     []int  `json:"msgs"`      // message sizes, sent in order
	Rounds   int    `json:"rounds"`    // the message list is sent this many times
	Quantum  uint32 `json:"quantum"`   // largest credit returned by one window update
	Updaters int    `json:"updaters"`  // goroutines returning credit
	Count    bool   `json:"count"`     // count the sender's parks through the yield hook (costs a little timing)
	LazyEvery int   `json:"lazy_every,omitempty"` // an updater yields its P after this many updates (0: never)
}

type ParResult struct {
	Sent       uint64 `json:"sent"`
	Want       uint64 `json:"want"`
	Credited   uint64 `json:"credited"`
	Updates    int64  `json:"updates"`
	Parks      int64  `json:"parks"` // times the sender reached its wait (only with Count)
	WindowEnd  uint32 `json:"window_end"`
	Done       bool   `json:"done"`
	Stranded   bool   `json:"stranded"`
	SenderState string `json:"sender_state,omitempty"`
	SendErr    string `json:"send_err,omitempty"`
	ChunkTooBig int   `json:"chunk_too_big,omitempty"`
	Overdrawn  bool   `json:"overdrawn,omitempty"` // more bytes in flight than the window allows
	WallMs     int64  `json:"wall_ms"`
}

func genFcxPar(t *rapid.T) *Case {
	c := &Case{Prop: "fcx_parallel"}
	p := &ParCase{}
	p.Window = rapid.SampledFrom([]uint32{1, 2, 7, 64, 512, 4096, 16384, 65536, 65536}).Draw(t, "window")
	n := rapid.IntRange(1, 4).Draw(t, "nmsgs")
	for i := 0; i < n; i++ {
		p.Msgs = append(p.Msgs, rapid.SampledFrom([]int{1, 3, 100, 1000, 16384, 16385, 40000, 70000, 200000, 1 << 20}).Draw(t, fmt.Sprintf("msg%d", i)))
	}
	total := 0
	for _, m := range p.Msgs {
		total += m
	}
	// enough volume that the window is exhausted thousands of times
	perRound := total
	target := rapid.SampledFrom([]int{1 << 20, 8 << 20, 32 << 20}).Draw(t, "volume")
	if p.Window < 64 {
		target = 1 << 16 // one update per byte or so: keep it short
	} else if p.Window < 4096 {
		target = 1 << 20
	}
	p.Rounds = target/perRound + 1
	p.Quantum = rapid.SampledFrom([]uint32{1, 64, 512, 512, 4096, 16384}).Draw(t, "quantum")
	p.Updaters = rapid.IntRange(1, 3).Draw(t, "updaters")
	p.Count = rapid.Bool().Draw(t, "count")
	p.LazyEvery = rapid.SampledFrom([]int{0, 0, 1, 16}).Draw(t, "lazy")
	c.Par = p
	return c
}

var goroutineHeader = regexp.MustCompile(`(?m)^goroutine \d+ \[([^\]]*)\]:`)

func execFcxPar(t *testing.T, c *Case) *Trace {
	tr := newWorldTrace()
	p := c.Par
	res := &ParResult{}
	tr.Par = res
	var sent, credited atomic.Uint64
	var inUpdate, updates, parks atomic.Int64
	var tooBig atomic.Int64
	var overdrawn atomic.Bool
	for r := 0; r < p.Rounds; r++ {
		for _, m := range p.Msgs {
			res.Want += uint64(m)
		}
	}
	_, chunkMax := grpctunnel.VerifConstants()
	if p.Count {
		grpctunnel.VerifSetYieldHook(func(point string) {
			if point == "sender.beforeWait" {
				parks.Add(1)
			}
		})
		defer grpctunnel.VerifSetYieldHook(nil)
	} else {
		grpctunnel.VerifSetYieldHook(nil)
	}
	ctx, cancel := context.WithCancel(context.Background())
	defer cancel()
	snd := grpctunnel.VerifNewSender(ctx, p.Window, func(data []byte, total uint32, first bool) error {
		if len(data) > chunkMax {
			tooBig.Add(1)
		}
		s := sent.Add(uint64(len(data)))
		// credit is claimed only for bytes already counted as sent, and read after s: a sound lower bound of what is in flight
		if int64(s)-int64(credited.Load()) > int64(p.Window) {
			overdrawn.Store(true)
		}
		return nil
	})
	start := time.Now()
	done := make(chan struct{})
	var sendErr error
	biggest := 0
	for _, m := range p.Msgs {
		if m > biggest {
			biggest = m
		}
	}
	buf := make([]byte, biggest)
	go func() {
		defer close(done)
		// the marker frame makes this goroutine recognisable in a stack dump
		sendErr = fcxParSenderLoop(snd, p, buf)
	}()
	stop := make(chan struct{})
	var wg sync.WaitGroup
	for u := 0; u < p.Updaters; u++ {
		wg.Add(1)
		go func() {
			defer wg.Done()
			n := 0
			for {
				select {
				case <-stop:
					return
				default:
				}
				// claim credit only for bytes that were really sent and not yet credited
				cr := credited.Load()
				avail := sent.Load() - cr
				if avail == 0 {
					runtime.Gosched()
					continue
				}
				give := uint64(p.Quantum)
				if give > avail {
					give = avail
				}
				inUpdate.Add(1)
				if !credited.CompareAndSwap(cr, cr+give) {
					inUpdate.Add(-1)
					continue
				}
				snd.UpdateWindow(uint32(give))
				updates.Add(1)
				inUpdate.Add(-1)
				n++
				if p.LazyEvery > 0 && n%p.LazyEvery == 0 {
					runtime.Gosched()
				}
			}
		}()
	}
	// watch
	last, lastChange := uint64(0), time.Now()
	tick := time.NewTicker(50 * time.Millisecond)
	defer tick.Stop()
	finished := false
watch:
	for {
		select {
		case <-done:
			finished = true
			break watch
		case <-tick.C:
		}
		Progress.Add(1)
		s := sent.Load()
		if s != last {
			last, lastChange = s, time.Now()
			continue
		}
		if time.Since(lastChange) < time.Second {
			continue
		}
		// no progress for a while: look at the state (the verdict below does not depend on how long we waited)
		if inUpdate.Load() != 0 || sent.Load() != credited.Load() {
			if time.Since(lastChange) > 30*time.Second {
				tr.Aborted = "parallel flow-control run made no progress for 30s and did not settle"
				break watch
			}
			continue
		}
		w, _ := snd.Window()
		state := senderGoroutineState()
		res.SenderState = state
		select {
		case <-done:
			finished = true
			break watch
		default:
		}
		if w > 0 && inUpdate.Load() == 0 && sent.Load() == credited.Load() && sent.Load() == s && strings.HasPrefix(state, "select") {
			res.Stranded = true
			break watch
		}
		if time.Since(lastChange) > 30*time.Second {
			tr.Aborted = "parallel flow-control run made no progress for 30s (sender state " + state + ")"
			break watch
		}
	}
	if finished {
		// let the updaters return what is still owed, then the whole window must be back
		deadline := time.Now().Add(20 * time.Second)
		for (sent.Load() != credited.Load() || inUpdate.Load() != 0) && time.Now().Before(deadline) {
			runtime.Gosched()
		}
	}
	close(stop)
	cancel() // releases a stranded sender
	wg.Wait()
	<-done
	res.Done = finished
	res.Sent, res.Credited, res.Updates, res.Parks = sent.Load(), credited.Load(), updates.Load(), parks.Load()
	res.WindowEnd, _ = snd.Window()
	res.ChunkTooBig = int(tooBig.Load())
	res.Overdrawn = overdrawn.Load()
	if sendErr != nil {
		res.SendErr = sendErr.Error()
	}
	res.WallMs = time.Since(start).Milliseconds()
	tr.Steps = int(res.Updates)
	return tr
}

//go:noinline
func fcxParSenderLoop(snd grpctunnel.VerifSender, p *ParCase, buf []byte) error {
	for r := 0; r < p.Rounds; r++ {
		for _, m := range p.Msgs {
			if err := snd.Send(buf[:m]); err != nil {
				return err
			}
		}
	}
	return nil
}

// senderGoroutineState returns the scheduler state ("select", "runnable", "running", ...)
// of the goroutine that executes fcxParSenderLoop, or "" if there is none.
func senderGoroutineState() string {
	buf := make([]byte, 1<<20)
	n := runtime.Stack(buf, true)
	for _, g := range strings.Split(string(buf[:n]), "\n\n") {
		if !strings.Contains(g, "fcxParSenderLoop") {
			continue
		}
		if m := goroutineHeader.FindStringSubmatch(g); m != nil {
			return m[1]
		}
	}
	return ""
}

func monFcxPar(c *Case, tr *Trace) []Violation {
	var vs []Violation
	add := func(class string, f string, a ...any) {
		vs = append(vs, Violation{Prop: "C05", Class: class, Details: fmt.Sprintf(f, a...)})
	}
	r := tr.Par
	if r == nil || tr.Aborted != "" {
		return nil
	}
	p := c.Par
	if r.Stranded {
		add("sender_stranded_with_credit", "the sender is parked in its wait (goroutine state %q) with a window of %d bytes, every one of the %d bytes it sent has been credited back (%d window updates, none under way): nothing will ever wake it; it still had %d bytes to send", r.SenderState, r.WindowEnd, r.Sent, r.Updates, r.Want-r.Sent)
		return vs
	}
	if !r.Done {
		return vs
	}
	if r.SendErr != "" {
		add("send_failed", "Send returned %q although nothing was cancelled", r.SendErr)
	}
	if r.Sent != r.Want {
		add("bytes_lost_or_duplicated", "the sender handed %d bytes to the transport, the messages add up to %d", r.Sent, r.Want)
	}
	if r.Credited == r.Sent && r.WindowEnd != p.Window {
		add("window_not_restored", "every byte sent (%d) has been credited back but the window is %d, not the initial %d", r.Sent, r.WindowEnd, p.Window)
	}
	if r.ChunkTooBig > 0 {
		add("chunk_too_big", "%d frames carried more than the chunk limit", r.ChunkTooBig)
	}
	return vs
}

// ntFcxPar: the window was exhausted (many times) while updates were arriving concurrently.
func ntFcxPar(c *Case, tr *Trace) bool {
	r := tr.Par
	return r != nil && r.Done && r.Want > 4*uint64(c.Par.Window) && r.Updates > 100
}

func labelsFcxPar(c *Case, tr *Trace) []string {
	p, r := c.Par, tr.Par
	ls := []string{fmt.Sprintf("window=%d", p.Window), fmt.Sprintf("quantum=%d", p.Quantum), fmt.Sprintf("updaters=%d", p.Updaters), fmt.Sprintf("count=%v", p.Count)}
	if r != nil {
		switch {
		case r.Updates < 1000:
			ls = append(ls, "updates<1e3")
		case r.Updates < 100000:
			ls = append(ls, "updates<1e5")
		default:
			ls = append(ls, "updates>=1e5")
		}
		if p.Count {
			switch {
			case r.Parks == 0:
				ls = append(ls, "parks=0")
			case r.Parks < 100:
				ls = append(ls, "parks<100")
			default:
				ls = append(ls, "parks>=100")
			}
		}
		if r.Overdrawn {
			ls = append(ls, "in_flight_above_window_observed")
		}
	}
	return ls
}
