package harness

import (
	"fmt"

	"pgregory.net/rapid"
)

// genC10: in-flight RPCs, then graceful shutdown at a drawn step, then 0-4 new attempts, then optionally Stop.
func genC10(t *rapid.T) *Case {
	c := &Case{Prop: "c10"}
	c.Cfg = genConfig(t, []string{"fwd", "rev", "rev"})
	if c.Cfg.Dir == "rev" && rapid.IntRange(0, 2).Draw(t, "three_tunnels") == 0 {
		c.Cfg.Tunnels = []TunnelSpec{{}, {}, {}}
	}
	nIn := rapid.IntRange(0, 4).Draw(t, "ninflight")
	for i := 0; i < nIn; i++ {
		r := genBystander(t, fmt.Sprintf("in%d", i))
		r.Role = "inflight"
		c.RPCs = append(c.RPCs, r)
	}
	kind := "initiate_shutdown"
	if c.Cfg.Dir == "rev" {
		kind = "graceful_stop"
	}
	at := rapid.IntRange(0, 80).Draw(t, "shutdown_at")
	c.Events = []Event{{Kind: kind, After: at, AtStep: true}}
	nLate := rapid.IntRange(0, 4).Draw(t, "nlate")
	for i := 0; i < nLate; i++ {
		r := genBystander(t, fmt.Sprintf("late%d", i))
		r.Role = "late"
		r.AfterEvent = 1
		if rapid.IntRange(0, 3).Draw(t, fmt.Sprintf("late%d.odd", i)) == 0 {
			// whatever is wrong with the request, a draining server refuses it with Unavailable
			r.Method = rapid.SampledFrom([]string{"/verif.Svc/Nope", "/nope.Svc/Unary", "nonsense", "<empty>"}).Draw(t, fmt.Sprintf("late%d.method", i))
		}
		c.RPCs = append(c.RPCs, r)
	}
	if c.Cfg.Dir == "rev" && rapid.IntRange(0, 2).Draw(t, "then_stop") == 0 {
		c.Events = append(c.Events, Event{Kind: "stop", After: at + rapid.IntRange(1, 120).Draw(t, "stop_after"), AtStep: true})
	} else if c.Cfg.Dir == "rev" && rapid.IntRange(0, 2).Draw(t, "graceful_again") == 0 {
		// a second GracefulStop while the first is still waiting (two components shutting the same server down)
		c.Events = append(c.Events, Event{Kind: "graceful_stop", After: at + rapid.IntRange(1, 20).Draw(t, "again_after"), AtStep: true})
	}
	c.Tape = genTape(t, 0, 300)
	return c
}

func monC10(c *Case, tr *Trace) []Violation {
	var vs []Violation
	if tr.Aborted != "" || len(tr.Events) == 0 {
		return nil
	}
	sd := tr.Events[0]
	add := func(class string, step int, f string, a ...any) {
		vs = append(vs, Violation{Prop: "C10", Class: class, Step: step, Details: fmt.Sprintf("%s at step %d: ", sd.Kind, sd.Fired) + fmt.Sprintf(f, a...)})
	}
	for _, p := range tr.Panics {
		add("panic", 0, "%s", p)
	}
	if sd.Fired < 0 {
		return vs
	}
	stopFired := -1
	var stop *EventRec
	if len(tr.Events) > 1 && len(c.Events) > 1 && c.Events[1].Kind == "stop" && tr.Events[1].Fired >= 0 {
		stop = tr.Events[1]
		stopFired = stop.Fired
	}
	ix := buildWireIndex(tr)
	drain2 := tr.PhaseStart["probe"]
	lastAcceptedFinish := -1 // step at which the last accepted RPC's close_stream was emitted
	allAcceptedFinished := true
	for i := range c.RPCs {
		k, onWire := ix.keyOf[i]
		nsRecv, closeEmit, closeRecv := -1, -1, -1
		if onWire {
			for _, f := range ix.byStream[k] {
				if f.F.Kind == "new_stream" && f.SendErr == "" {
					nsRecv = f.Received
				}
				if f.F.Kind == "close" && closeEmit < 0 {
					closeEmit = f.Step
					closeRecv = f.Received
				}
			}
		}
		var term *OpRec
		for _, o := range tr.Ops {
			if o.RPC != i || o.Side != "caller" || o.Pending() {
				continue
			}
			if (o.Kind == "recv" && o.Code != CodeNil) || o.Kind == "invoke" || (o.Kind == "start" && o.Code != CodeNil) {
				term = o
				break
			}
		}
		accepted := nsRecv >= 0 && nsRecv < sd.Fired
		refusedByRule := nsRecv >= 0 && nsRecv > sd.Fired
		// (a new_stream processed in the very step of the shutdown call may go either way)
		if stopFired >= 0 {
			// after a hard Stop anything still running is cancelled; only the pre-Stop part is judged
			if accepted && (closeEmit < 0 || closeEmit > stopFired) {
				continue
			}
		}
		switch {
		case accepted:
			if closeEmit < 0 {
				allAcceptedFinished = false
			} else if closeEmit > lastAcceptedFinish {
				lastAcceptedFinish = closeEmit
			}
			if msg := bystanderComplete(c, tr, i, drain2); msg != "" {
				add("in_flight_rpc_harmed", drain2, "rpc %d (%s, new_stream processed at step %d, before the shutdown) did not complete normally: %s", i, c.RPCs[i].Shape, nsRecv, msg)
			}
		case refusedByRule:
			// whatever Stop did afterwards: an RPC that arrives at a draining (or stopped) server never reaches a handler
			for _, inv := range tr.Invocations {
				if inv.RPC == i {
					add("late_rpc_reached_handler", inv.Step, "rpc %d (new_stream processed at step %d, after the shutdown) invoked its handler", i, nsRecv)
				}
			}
			if stopFired >= 0 && nsRecv > stopFired {
				continue
			}
			if stopFired >= 0 && term != nil && (closeRecv < 0 || closeRecv > term.End) {
				// the hard Stop took the tunnel away before the refusal reached the caller's end: any failure is legitimate
				continue
			}
			if term == nil || (stopFired < 0 && term.End >= tr.PhaseStart["end"]) {
				add("refused_rpc_never_completed", drain2, "rpc %d (new_stream processed at step %d, after the shutdown) had no terminal result when the drained run reached its end", i, nsRecv)
			} else if term.Code != 14 {
				add("late_rpc_not_refused", term.End, "rpc %d (new_stream processed at step %d, after the shutdown): terminal result code %d (%s), want Unavailable", i, nsRecv, term.Code, term.Err)
			}
			// A call with a single request (unary, server-streaming) is made by generated code as NewStream + SendMsg +
			// CloseSend, and an error from that SendMsg is handed to the application as the result of the RPC: if the refusal
			// overtook the request, the send either succeeds (the status comes from Recv) or reports the refusal itself.
			if !reqStreams(c.RPCs[i].Shape) {
				for _, o := range tr.Ops {
					if o.RPC == i && o.Side == "caller" && o.Kind == "send" && o.Idx == 0 && !o.Pending() && o.Code != CodeNil && o.Code != 14 &&
						closeRecv >= 0 && closeRecv < o.Start && (stopFired < 0 || o.End < stopFired) {
						add("late_rpc_not_refused", o.End, "rpc %d (%s, new_stream processed at step %d, after the shutdown; the refusal reached the calling end at step %d): the call's one SendMsg failed with code %d (%s) - generated code returns that to the application as the RPC's result; want Unavailable (or success, with Unavailable from Recv)", i, c.RPCs[i].Shape, nsRecv, closeRecv, o.Code, o.Err)
					}
				}
			}
		}
	}
	// the tunnel stays up for the accepted RPCs
	for _, t := range tr.Tunnels {
		end := -1
		if t.DoneStep >= 0 {
			end = t.DoneStep
		}
		if t.ServeReturned >= 0 && (end < 0 || t.ServeReturned < end) {
			end = t.ServeReturned
		}
		limit := tr.PhaseStart["end"]
		if stopFired >= 0 {
			limit = stopFired
		}
		if end >= 0 && end < limit && (!allAcceptedFinished || end < lastAcceptedFinish) {
			add("tunnel_ended_before_in_flight_rpcs_finished", end, "tunnel %d ended at step %d (done@%d %q serve@%d %q); the last accepted RPC finished at step %d", t.Idx, end, t.DoneStep, t.ChanErr, t.ServeReturned, t.ServeErr, lastAcceptedFinish)
		}
	}
	if sd.Kind == "graceful_stop" {
		if sd.Returned >= 0 && (stopFired < 0 || sd.Returned < stopFired) && (!allAcceptedFinished || sd.Returned < lastAcceptedFinish) {
			add("graceful_stop_returned_early", sd.Returned, "GracefulStop returned at step %d while an accepted RPC was unfinished (last finish at step %d, all finished: %v)", sd.Returned, lastAcceptedFinish, allAcceptedFinished)
		}
		if allAcceptedFinished && stopFired < 0 && (sd.Returned < 0 || sd.Returned >= tr.PhaseStart["end"]) {
			add("graceful_stop_never_returns", drain2, "every accepted RPC had finished by step %d and the run was drained, but GracefulStop had not returned (returned at %d, i.e. only when the harness ended the tunnel)", lastAcceptedFinish, sd.Returned)
		}
	}
	for j := 1; j < len(tr.Events) && j < len(c.Events); j++ {
		e := tr.Events[j]
		if c.Events[j].Kind == "graceful_stop" && e.Fired >= 0 && e.Returned >= 0 && !e.PendingAtEnd && (!allAcceptedFinished || e.Returned < lastAcceptedFinish) && e.Returned < tr.PhaseStart["end"] {
			add("graceful_stop_returned_early", e.Returned, "a second GracefulStop (called at step %d) returned at step %d while an accepted RPC was unfinished (last finish at step %d, all finished: %v)", e.Fired, e.Returned, lastAcceptedFinish, allAcceptedFinished)
		}
	}
	if stop != nil && stop.Returned >= 0 {
		for _, t := range tr.Tunnels {
			if t.Opened && (t.ServeReturned < 0 || t.ServeReturned > stop.Returned) {
				add("stop_returned_before_serve", stop.Returned, "Stop returned at step %d but Serve of tunnel %d returned at step %d", stop.Returned, t.Idx, t.ServeReturned)
			}
		}
		for _, inv := range tr.Invocations {
			if inv.CtxDoneStep < 0 || inv.CtxDoneStep > stop.Returned {
				add("stop_returned_before_handlers_cancelled", stop.Returned, "Stop returned at step %d but the handler of rpc %d saw its context end at step %d", stop.Returned, inv.RPC, inv.CtxDoneStep)
			}
		}
	} else if stop != nil && stop.Returned < 0 {
		add("stop_never_returned", stop.Fired, "Stop called at step %d never returned", stop.Fired)
	}
	return vs
}

func ntC10(c *Case, tr *Trace) bool {
	if len(tr.Events) == 0 || tr.Events[0].Fired < 0 {
		return false
	}
	fired := tr.Events[0].Fired
	ix := buildWireIndex(tr)
	inflight, late := false, false
	for i := range c.RPCs {
		if k, ok := ix.keyOf[i]; ok {
			ns, cl := -1, -1
			for _, f := range ix.byStream[k] {
				if f.F.Kind == "new_stream" {
					ns = f.Received
				}
				if f.F.Kind == "close" && cl < 0 {
					cl = f.Step
				}
			}
			if ns >= 0 && ns < fired && (cl < 0 || cl > fired) {
				inflight = true
			}
			if ns > fired {
				late = true
			}
		}
	}
	return inflight && late
}

// genC10Late: a reverse-tunnel server that is serving 1-3 tunnels gets one more Serve
// call (a reconnect loop) around the moment Stop (optionally preceded by GracefulStop)
// is called; the new carrier stream's round trip is delivered by the schedule, so Stop
// can fall before, inside or after it.
func genC10Late(t *rapid.T) *Case {
	c := &Case{Prop: "c10late"}
	c.Cfg = genConfig(t, []string{"rev"})
	c.Cfg.Tunnels = make([]TunnelSpec, rapid.IntRange(1, 3).Draw(t, "ntunnels"))
	nIn := rapid.IntRange(0, 2).Draw(t, "ninflight")
	for i := 0; i < nIn; i++ {
		r := genBystander(t, fmt.Sprintf("in%d", i))
		r.Role = "inflight"
		c.RPCs = append(c.RPCs, r)
	}
	at := rapid.IntRange(0, 12*nIn).Draw(t, "serve_at") // steps only pass while something is running
	c.Events = []Event{{Kind: "serve_more", After: at, AtStep: true}}
	d := rapid.SampledFrom([]int{-3, -1, 0, 0, 1, 1, 2, 3, 6, 20}).Draw(t, "stop_delta")
	stopAt := at + d
	if stopAt < 0 {
		stopAt = 0
	}
	if rapid.IntRange(0, 3).Draw(t, "graceful_first") == 0 {
		g := stopAt - rapid.IntRange(0, 4).Draw(t, "graceful_delta")
		if g < 0 {
			g = 0
		}
		c.Events = append(c.Events, Event{Kind: "graceful_stop", After: g, AtStep: true})
	}
	c.Events = append(c.Events, Event{Kind: "stop", After: stopAt, AtStep: true})
	if rapid.IntRange(0, 3).Draw(t, "stop_again") == 0 {
		// a second, overlapping Stop (judged like the first: it returns only after every Serve call has returned)
		c.Events = append(c.Events, Event{Kind: "stop", After: stopAt + rapid.IntRange(0, 2).Draw(t, "stop_again_delta"), AtStep: true})
	}
	if rapid.IntRange(0, 3).Draw(t, "second_serve") == 0 {
		c.Events = append(c.Events, Event{Kind: "serve_more", After: stopAt + rapid.IntRange(0, 3).Draw(t, "serve2_delta"), AtStep: true})
	}
	if rapid.IntRange(0, 1).Draw(t, "park_serve") == 0 {
		// hold the late Serve call between registering its tunnel and serving it (set-up tunnels pass the point first)
		c.Yields = append(c.Yields, Yield{Point: "reverse.serve.afterAddInstance", Nth: len(c.Cfg.Tunnels), Repeat: 2, Kind: "park"})
	}
	c.Tape = genTape(t, 0, 200)
	return c
}

// monC10Late: "Stop returns only after every Serve call has returned". A Serve call
// that was still opening its stream when Stop ran cannot be waited for by Stop (it has
// not registered yet), but it must not go on to serve: once everything in flight has
// been delivered it has returned, and nothing it started is left running.
func monC10Late(c *Case, tr *Trace) []Violation {
	var vs []Violation
	if tr.Aborted != "" {
		return nil
	}
	add := func(class string, step int, f string, a ...any) {
		vs = append(vs, Violation{Prop: "C10", Class: class, Step: step, Details: fmt.Sprintf(f, a...)})
	}
	for _, p := range tr.Panics {
		add("panic", 0, "%s", p)
	}
	for _, stop := range tr.Events {
		if stop.Kind != "stop" || stop.Fired < 0 {
			continue
		}
		vs = append(vs, judgeStop(c, tr, stop)...)
	}
	return vs
}

// judgeStop: the clauses of "Stop returns only after every Serve call has returned and all in-flight handlers have been
// cancelled", for one Stop call (there may be several, overlapping).
func judgeStop(c *Case, tr *Trace, stop *EventRec) []Violation {
	var vs []Violation
	add := func(class string, step int, f string, a ...any) {
		vs = append(vs, Violation{Prop: "C10", Class: class, Step: step, Details: fmt.Sprintf(f, a...)})
	}
	if stop.Returned < 0 || stop.PendingAtEnd {
		add("stop_never_returned", stop.Fired, "Stop called at step %d never returned", stop.Fired)
		return vs
	}
	end := tr.PhaseStart["end"]
	for _, t := range tr.Tunnels {
		if t.Kind != "rev" {
			continue
		}
		if t.ServeCalled > stop.Returned {
			continue // a Serve call made after Stop returned: refused, see below
		}
		if t.ServeStarted && t.ServeCalled < stop.Fired && t.Opened && (t.ServeReturned < 0 || t.ServeReturned > stop.Returned) {
			add("stop_returned_before_serve", stop.Returned, "Stop returned at step %d but Serve of tunnel %d (serving since step %d) returned at step %d", stop.Returned, t.Idx, t.ServeCalled, t.ServeReturned)
		}
		if t.ServeReturned < 0 || t.ServeReturned >= end {
			add("serve_running_after_stop", stop.Returned, "Stop returned at step %d; the Serve call of tunnel %d (called at step %d) was still running when the drained run ended at step %d (returned at %d, started=%v)", stop.Returned, t.Idx, t.ServeCalled, end, t.ServeReturned, t.ServeStarted)
		}
	}
	for _, t := range tr.Tunnels {
		if t.Kind == "rev" && t.ServeCalled > stop.Returned {
			if t.ServeStarted || t.ServeReturned < 0 || t.ServeReturned >= end {
				add("serve_after_stop_not_refused", t.ServeCalled, "Serve called at step %d, after Stop had returned at step %d: started=%v returned@%d err=%q", t.ServeCalled, stop.Returned, t.ServeStarted, t.ServeReturned, t.ServeErr)
			}
		}
	}
	for _, inv := range tr.Invocations {
		if inv.Step <= stop.Returned && (inv.CtxDoneStep < 0 || inv.CtxDoneStep > stop.Returned) {
			add("stop_returned_before_handlers_cancelled", stop.Returned, "Stop returned at step %d but the handler of rpc %d saw its context end at step %d", stop.Returned, inv.RPC, inv.CtxDoneStep)
		}
		if inv.Step > stop.Returned {
			add("handler_invoked_after_stop", inv.Step, "the handler of rpc %d was invoked at step %d, after Stop had returned at step %d", inv.RPC, inv.Step, stop.Returned)
		}
	}
	return vs
}

// ntC10Late: Stop ran while a Serve call was between opening its stream and registering it.
func ntC10Late(c *Case, tr *Trace) bool {
	var stop *EventRec
	for _, e := range tr.Events {
		if e.Kind == "stop" && e.Fired >= 0 {
			stop = e
		}
	}
	if stop == nil {
		return false
	}
	for _, t := range tr.Tunnels {
		if t.Late && t.ServeCalled <= stop.Fired && t.ServeReturned > stop.Fired && !t.ServeStarted {
			return true
		}
	}
	return false
}

func labelsC10Late(c *Case, tr *Trace) []string {
	ls := commonLabels(c, tr)
	for _, t := range tr.Tunnels {
		if t.Late {
			ls = append(ls, fmt.Sprintf("late_serve_started=%v", t.ServeStarted))
		}
	}
	if ntC10Late(c, tr) {
		ls = append(ls, "stop_inside_serve_round_trip")
	}
	return ls
}
