package harness

import (
	"crypto/sha256"
	"encoding/hex"
	"encoding/json"
)

// Case is the complete, pre-drawn description of one simulation: scenario plus
// schedule tape. It is a pure value; executing it twice gives the same run
// (up to the order of library goroutines inside one step). The JSON form is
// the replay file.
type Case struct {
	Prop   string  `json:"prop"`
	Cfg    Config  `json:"cfg"`
	RPCs   []RPC   `json:"rpcs,omitempty"`
	Events []Event `json:"events,omitempty"`
	Yields []Yield `json:"yields,omitempty"`
	Raw    *Raw    `json:"raw,omitempty"`
	Reg    []RegOp `json:"reg,omitempty"` // registry history (C12)
	Fcx    *FcxCase `json:"fcx,omitempty"` // unit-level flow-control explorer case
	Par    *ParCase `json:"par,omitempty"` // parallel (free-running) flow-control case
	StableRounds int `json:"stable_rounds,omitempty"` // registry under parallelism: once the set of tunnels is stable, this many x n RPCs are issued through AsChannel() from 8 goroutines
	Tape   []int   `json:"tape,omitempty"`
	Free   bool    `json:"free,omitempty"` // run free (stress engine) instead of stepped
	Note   string  `json:"note,omitempty"`
}

// Config: tunnel topology and options.
type Config struct {
	Dir      string              `json:"dir"`                 // fwd | rev | nested (forward tunnel inside a forward tunnel) | nestedrev (forward tunnel inside a reverse tunnel)
	ClientFC string              `json:"client_fc,omitempty"` // network-client side: on | off | legacy
	ServerFC string              `json:"server_fc,omitempty"` // network-server (handler) side: on | off | legacy
	Cap      int                 `json:"cap,omitempty"`       // carrier capacity in frames per direction; 0 = unbounded
	Tunnels  []TunnelSpec        `json:"tunnels,omitempty"`   // one entry per tunnel opened at start (default: one)
	Carrier    string       `json:"carrier,omitempty"` // "" = memconn (harness-owned), "bufconn" = real grpc-go over an in-process pipe (free-running only)
	HasKeyFn bool                `json:"has_key_fn,omitempty"`
	DrainEvery int               `json:"drain_every,omitempty"` // every n tape steps deliver everything in flight and take an accounting snapshot
	OpenMD   map[string][]string `json:"open_md,omitempty"` // default opening metadata
}

type TunnelSpec struct {
	Key    string              `json:"key,omitempty"`    // affinity key (sent as opening metadata "x-verif-key"; "" with HasKeyFn = nil key)
	MD     map[string][]string `json:"md,omitempty"`     // opening metadata
	Peer   string              `json:"peer,omitempty"`   // peer address the handler side sees
	CtxVal string              `json:"ctxval,omitempty"` // interceptor-set context value
	IcptMD map[string][]string `json:"icpt_md,omitempty"` // outgoing metadata a client stream interceptor adds to the tunnel-opening call
	SrvOutMD map[string][]string `json:"srv_out_md,omitempty"` // outgoing metadata a server stream interceptor puts into the context of the tunnel-opening call as the network server sees it (trace propagation, say)
	Server int                 `json:"server,omitempty"` // reverse: index of the ReverseTunnelServer instance that serves this tunnel
}

type MDOp struct {
	Kind string              `json:"kind"` // sethdr sendhdr settrl send
	MD   map[string][]string `json:"md,omitempty"`
	Idx  int                 `json:"idx,omitempty"` // send: index into Resp
	BigKeys       int        `json:"big_keys,omitempty"`        // header operations: add this many generated keys
	CancelAfterUs int        `json:"cancel_after_us,omitempty"` // free-running engines: cancel the RPC this many microseconds after the operation returned
}

type Creds struct {
	SlowUs     int               `json:"slow_us,omitempty"` // free-running engines: GetRequestMetadata takes this long
	MD         map[string]string `json:"md,omitempty"`
	RequireTLS bool              `json:"require_tls,omitempty"`
	Fail       bool              `json:"fail,omitempty"`
}

// RPC describes one scripted call: what the caller does and what its handler does.
type RPC struct {
	Shape  string `json:"shape"`            // unary cstream sstream bidi
	Via    string `json:"via,omitempty"`    // unary only: "invoke" (default) or "stream"
	Method string `json:"method,omitempty"` // override of the full method name (disturbers)
	Alt    bool   `json:"alt,omitempty"`    // call the same-named method of the second registered service verif.Alt (its own handlers) instead of verif.Svc
	Chan   string `json:"chan,omitempty"`   // "" = default channel; "key:<k>" = KeyAsChannel(k); "tunnel:<i>" = that tunnel's channel
	AfterEvent int `json:"after_event,omitempty"` // the call may start only after event #(AfterEvent-1) has fired
	Role    string `json:"role,omitempty"`       // bystander | disturber:<kind> | victim | probe (used by oracles)
	Starter int   `json:"starter,omitempty"` // C08: RPCs with the same non-zero Starter group start in the same step from different goroutines

	ReqMD   map[string][]string `json:"req_md,omitempty"`
	NoMD    bool                `json:"no_md,omitempty"` // attach no outgoing metadata at all (tag then travels via creds or not at all)
	Creds   *Creds              `json:"creds,omitempty"`
	HdrOpt  bool                `json:"hdr_opt,omitempty"`
	TrlOpt  bool                `json:"trl_opt,omitempty"`
	PeerOpt bool                `json:"peer_opt,omitempty"`
	ChanOpt bool                `json:"chan_opt,omitempty"`
	Timeout int64               `json:"timeout_ms,omitempty"` // caller context deadline, virtual ms; 0 = none
	NoCancelCtx bool            `json:"no_cancel_ctx,omitempty"` // the caller's context can never be cancelled (context.Background() plus values)
	ReuseMsg  bool              `json:"reuse_msg,omitempty"` // each side receives every message into one re-used message object
	ChanOpt2  bool              `json:"chan_opt2,omitempty"` // a second WithTunnelChannel option on the same call
	RecvUnknown bool            `json:"recv_unknown,omitempty"` // both sides receive into a message type that does not know the payload field (a relay, an older schema): the bytes must survive as unknown fields
	Opt2      bool              `json:"opt2,omitempty"` // every grpc.Header / grpc.Trailer / grpc.Peer option is passed twice, with a location of its own
	GrpcTimeoutNoValues bool    `json:"grpc_timeout_no_values,omitempty"` // the grpc-timeout key is present with an empty value list
	CtxCause  bool              `json:"ctx_cause,omitempty"` // the caller's context is built with WithCancelCause / WithTimeoutCause and ended with an application-defined cause
	CancelAtReturnUs int        `json:"cancel_at_return_us,omitempty"` // free-running engines: the caller's context is cancelled this many microseconds after the handler decided to return
	Fuse      string            `json:"fuse,omitempty"` // "h", "c", "both": the handler's / caller's actors run their operations back to back (no quiescence in between)
	PreCancel bool              `json:"pre_cancel,omitempty"` // the caller's context is already cancelled when the call is issued
	GrpcTimeout []string        `json:"grpc_timeout,omitempty"` // C18: values of the grpc-timeout request header

	Req  []int `json:"req,omitempty"`  // request payload sizes
	Resp []int `json:"resp,omitempty"` // response payload sizes

	// caller behaviour
	CallHeader   int  `json:"call_header,omitempty"`    // call Header() before the n-th Recv (1-based; 0 = never; -1 = after the terminal result)
	Recvs        int  `json:"recvs,omitempty"`          // number of Recv calls (0 = until terminal result)
	NoCloseSend  bool `json:"no_close_send,omitempty"`  // streaming caller never half-closes
	ExtraSend    bool `json:"extra_send,omitempty"`     // C16: one send too many on a non-streaming request side
	StallRecv    bool `json:"stall_recv,omitempty"`     // caller reads nothing until released
	StallSend    bool `json:"stall_send,omitempty"`
	ExtraRecvs   int  `json:"extra_recvs,omitempty"`    // Recv calls after the terminal result (must repeat it)

	// handler behaviour
	HOps        []MDOp `json:"hops,omitempty"` // ordered header/trailer/send operations of the handler's sending side
	HReturnMDErr bool  `json:"hreturn_md_err,omitempty"` // the handler returns, as the RPC's result, the error a header / trailer call returned to it
	HRecvs      int    `json:"hrecvs,omitempty"`       // number of Recv calls by the handler (0 = until EOF/error; -1 = none)
	HStallRecv  bool   `json:"hstall_recv,omitempty"`
	HStallSend  bool   `json:"hstall_send,omitempty"`
	HExtraSend  bool   `json:"hextra_send,omitempty"` // C16: handler sends twice on a non-streaming response side
	HWaitRecv   bool   `json:"hwait_recv,omitempty"`  // handler returns only after its receiving side saw end-of-stream (or an error)
	HWaitCtx    bool   `json:"hwait_ctx,omitempty"`   // handler waits for its context to end before returning
	Code        int    `json:"code,omitempty"`
	Msg         string `json:"msg,omitempty"`
	Details     []string `json:"details,omitempty"`
	Access      bool   `json:"access,omitempty"` // C17: handler and caller call the identity accessors (and mutate results)
}

// Event: a fault or API call placed in the run.
type Event struct {
	Kind   string `json:"kind"`             // close_channel handler_close cancel_open expire_open break_client break_server break_both stop graceful_stop initiate_shutdown cancel_rpc advance release open_tunnel
	Target int    `json:"target,omitempty"` // tunnel / rpc / server index
	After  int    `json:"after"`            // trigger: forced when the number of delivered carrier frames reaches After (if AtStep is false) or at scheduler step After
	AtStep bool   `json:"at_step,omitempty"`
	AfterEv int   `json:"after_ev,omitempty"` // if > 0: fires After scheduler steps after event #(AfterEv-1) fired
	Ms     int64  `json:"ms,omitempty"` // advance
}

// Yield arms one yield point for one (or a few) of its occurrences.
type Yield struct {
	Point  string `json:"point"`
	Nth    int    `json:"nth"`              // 0-based occurrence index at which it fires
	Repeat int    `json:"repeat,omitempty"` // fire on this many consecutive occurrences (default 1)
	Kind   string `json:"kind,omitempty"`   // gosched (default) | sleep
}

// Raw: a scripted raw peer speaking the frame protocol directly against a real endpoint.
type Raw struct {
	Role         string       `json:"role"`                    // client (raw network client vs the real tunnel server) | server (raw network server vs the real tunnel client)
	Negotiate    bool         `json:"negotiate"`               // the raw peer advertises negotiation (request header / response header)
	WaitSettings bool         `json:"wait_settings,omitempty"` // client role: send nothing before the settings frame has arrived
	AutoCredit   bool         `json:"auto_credit,omitempty"`   // the raw peer returns credit for the data it receives, like a conforming peer
	Frames       []RawFrame   `json:"frames,omitempty"`        // client role: the frames to send, in order
	Settings     *RawSettings `json:"settings,omitempty"`      // server role: what is presented as settings
	Replies      []RawReply   `json:"replies,omitempty"`       // server role: per-RPC reply programs
	Extra        []RawFrame   `json:"extra,omitempty"`         // server role: unsolicited frames, sent in order by their own actor
	Dev          []string     `json:"dev,omitempty"`           // names of the deviations applied (labels, and input of the validator model)
	HangUpErr    bool         `json:"hangup_err,omitempty"`    // server role: the raw server ends the carrier with an error status instead of OK
	Expect       []RawExpect  `json:"expect,omitempty"`        // what the generator knows about the outcome of each logical RPC
	TunnelLevel  string       `json:"tunnel_level,omitempty"`  // name of the tunnel-level violation in the script ("" = none, "?" = statement is silent)
}

// RawExpect: expected outcome of one logical RPC of a raw script.
type RawExpect struct {
	Tag   int    `json:"tag"`
	Clean bool   `json:"clean"`          // the RPC's frames are exactly the conforming sequence: it must complete with its scripted results
	Code  int    `json:"code,omitempty"` // dirty RPC: the status code the statement (or a sibling property) names; 0 = only crash/hang/leak clauses
	Why   string `json:"why,omitempty"`
}

type RawSettings struct {
	Omit      bool    `json:"omit,omitempty"`       // send no settings frame at all (only sound together with EndFirst or !Negotiate)
	ID        int64   `json:"id"`                   // stream id of the settings frame (conforming: -1)
	Revisions []int32 `json:"revisions"`            // supported_protocol_revisions
	Window    uint32  `json:"window"`               // initial_window_size
	WrongKind string  `json:"wrong_kind,omitempty"` // send this kind of frame first instead of settings
	EndFirst  bool    `json:"end_first,omitempty"`  // end the stream before sending settings
	Twice     bool    `json:"twice,omitempty"`      // send the settings frame a second time
}

// RawReply: what the raw server sends for the RPC with the given tag, one frame per scheduler step, once the RPC's new_stream has arrived.
type RawReply struct {
	Tag    int        `json:"tag"`
	Frames []RawFrame `json:"frames"`
}

type RawFrame struct {
	ID       int64               `json:"id,omitempty"`       // client role: the stream id; server role: used only with ForceID
	ForceID  bool                `json:"force_id,omitempty"` // server role: use ID instead of the id the client chose for the RPC
	Kind     string              `json:"kind"`               // new_stream msg more half_close cancel window_update nil | settings headers close
	Method   string              `json:"method,omitempty"`
	Rev      int32               `json:"rev,omitempty"`
	Window   uint32              `json:"window,omitempty"`   // new_stream: initial_window_size; settings: window
	Size     uint32              `json:"size,omitempty"`     // msg: declared size; window_update: credit
	DataLen  int                 `json:"data_len,omitempty"` // msg/more: bytes of data in this frame
	Msg      int                 `json:"msg,omitempty"`      // msg/more: index of the logical message the data is taken from
	Off      int                 `json:"off,omitempty"`      // msg/more: offset into the serialized logical message
	Zeros    bool                `json:"zeros,omitempty"`    // msg/more: data is zero bytes rather than a slice of a logical message
	Code     int32               `json:"code,omitempty"`     // close: status code
	Text     string              `json:"text,omitempty"`     // close: status message
	MD       map[string][]string `json:"md,omitempty"`
	Tag      int                 `json:"tag,omitempty"`      // logical RPC this frame belongs to (payload generation, x-verif-rpc tag); -1 = none
	NoWindow bool                `json:"no_window,omitempty"` // server role: send even if the client's window does not allow it
	Revs     []int32             `json:"revs,omitempty"`     // settings frame sent as an ordinary (late) frame
}

// FcxCase: one configuration of the unit-level flow-control explorer.
type FcxCase struct {
	Kind     string   `json:"kind"`               // sender | receiver | nofc_receiver
	Window   uint32   `json:"window"`             // initial window
	Msgs     []int    `json:"msgs,omitempty"`     // sender: message sizes
	Credits  []uint32 `json:"credits,omitempty"`  // sender: window updates applied by the updater goroutine, in order
	Cancel   bool     `json:"cancel,omitempty"`   // sender: "cancel the context" is one of the schedulable actions
	FailAt   int      `json:"fail_at,omitempty"`  // sender: the k-th sendFunc call (1-based) fails; 0 = never
	NoFC     bool     `json:"nofc,omitempty"`     // sender without flow control
	Exhaust  bool     `json:"exhaust,omitempty"`  // enumerate every schedule (bounded by MaxRuns), else follow Tape
	MaxRuns  int      `json:"max_runs,omitempty"`
	Ops      []FcxOp  `json:"ops,omitempty"`      // receiver: operation sequence
}

type FcxOp struct {
	Kind string `json:"kind"` // accept dequeue close cancel
	Size int    `json:"size,omitempty"`
}

// RegOp: one operation of a registry history (C12).
type RegOp struct {
	Kind string `json:"kind"` // open close_handler close_stop close_ctx close_break rpc ready wait all
	Key  string `json:"key,omitempty"`
	Tun  int    `json:"tun,omitempty"`
	Via  string `json:"via,omitempty"` // rpc/ready/wait: "all" or "key:<k>"
	Ms   int64  `json:"ms,omitempty"`
	G    int    `json:"g,omitempty"` // registry stress: the goroutine that issues this operation
}

func (c *Case) JSON() []byte {
	b, _ := json.Marshal(c)
	return b
}

func (c *Case) Hash() string {
	h := sha256.Sum256(c.JSON())
	return hex.EncodeToString(h[:8])
}

func ParseCase(b []byte) (*Case, error) {
	var c Case
	if err := json.Unmarshal(b, &c); err != nil {
		return nil, err
	}
	return &c, nil
}
