package harness

import (
	"encoding/hex"
	"strings"

	"google.golang.org/protobuf/types/known/anypb"
)

// decStr decodes the case-file convention for strings that JSON cannot carry:
// "hex:<hexdigits>" stands for those raw bytes (e.g. invalid UTF-8).
func decStr(s string) string {
	if strings.HasPrefix(s, "hex:") {
		if b, err := hex.DecodeString(s[4:]); err == nil {
			return string(b)
		}
	}
	return s
}

func encStr(b []byte) string { return "hex:" + hex.EncodeToString(b) }

func decMD(md map[string][]string) map[string][]string {
	if md == nil {
		return nil
	}
	out := make(map[string][]string, len(md))
	for k, vs := range md {
		nv := make([]string, len(vs))
		for i, v := range vs {
			nv[i] = decStr(v)
		}
		out[decStr(k)] = nv
	}
	return out
}

func anyDetail(d string) *anypb.Any {
	return &anypb.Any{TypeUrl: "type.verif/" + d, Value: []byte(d)}
}
