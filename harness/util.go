package harness

import (
	"google.golang.org/protobuf/types/known/anypb"
)

func anyDetail(d string) *anypb.Any {
	return &anypb.Any{TypeUrl: "type.verif/" + d, Value: []byte(d)}
}
