package harness

import (
	"fmt"
	"strings"
)

// bystanderComplete checks that RPC i ran to completion with all its data by step `by`
// (ops that ended after `by`, or never, count as not complete). Returns "" if complete.
func bystanderComplete(c *Case, tr *Trace, i int, by int) string {
	sp := &c.RPCs[i]
	okBy := func(o *OpRec) bool { return !o.Pending() && o.End <= by }
	var problems []string
	callerSends, handlerRecvOK, handlerEOF := 0, 0, false
	callerRecvOK, callerTerm := 0, false
	started := false
	for _, o := range tr.Ops {
		if o.RPC != i {
			continue
		}
		switch {
		case o.Side == "caller" && o.Kind == "start":
			started = true
			if !okBy(o) || o.Code != CodeNil {
				problems = append(problems, "start: "+o.String())
			}
		case o.Side == "caller" && o.Kind == "send":
			if !okBy(o) || o.Code != CodeNil {
				problems = append(problems, "send: "+o.String())
			} else {
				callerSends++
			}
		case o.Side == "caller" && o.Kind == "invoke":
			started = true
			if !okBy(o) || o.Code != CodeNil || o.Payload == nil || !o.Payload.OK {
				problems = append(problems, "invoke: "+o.String())
			} else {
				callerTerm = true
				callerRecvOK = 1
				callerSends = 1
			}
		case o.Side == "caller" && o.Kind == "recv":
			if !okBy(o) {
				problems = append(problems, "recv: "+o.String())
			} else if o.Code == CodeNil {
				if o.Payload != nil && o.Payload.OK {
					callerRecvOK++
				} else {
					problems = append(problems, "recv: "+o.String())
				}
			} else if o.Code == CodeEOF {
				callerTerm = true
			} else {
				problems = append(problems, "recv: "+o.String())
			}
		case o.Side == "handler" && o.Kind == "recv":
			if !okBy(o) {
				problems = append(problems, "handler recv: "+o.String())
			} else if o.Code == CodeNil {
				handlerRecvOK++
			} else if o.Code == CodeEOF {
				handlerEOF = true
			} else if !o.Abandoned {
				problems = append(problems, "handler recv: "+o.String())
			}
		case o.Side == "handler" && (o.Kind == "send" || o.Kind == "return"):
			if !okBy(o) || (o.Kind == "send" && o.Code != CodeNil) {
				problems = append(problems, "handler "+o.Kind+": "+o.String())
			}
		}
	}
	if !started {
		return "never started"
	}
	if len(problems) == 0 {
		if callerSends != len(sp.Req) {
			problems = append(problems, fmt.Sprintf("caller sent %d of %d requests", callerSends, len(sp.Req)))
		}
		if handlerRecvOK != len(sp.Req) {
			problems = append(problems, fmt.Sprintf("handler received %d of %d requests", handlerRecvOK, len(sp.Req)))
		}
		if callerRecvOK != len(sp.Resp) {
			problems = append(problems, fmt.Sprintf("caller received %d of %d responses", callerRecvOK, len(sp.Resp)))
		}
		if !callerTerm && !(sp.Shape == "unary" && sp.Via != "stream") {
			// non-streaming responses via stream: terminal EOF is read by the second Recv
			problems = append(problems, "caller saw no terminal OK")
		}
		_ = handlerEOF
	}
	if len(problems) > 3 {
		problems = append(problems[:3], "...")
	}
	return strings.Join(problems, "; ")
}

func disturberOf(c *Case) (int, string) {
	for i := range c.RPCs {
		if strings.HasPrefix(c.RPCs[i].Role, "disturber:") {
			return i, strings.TrimPrefix(c.RPCs[i].Role, "disturber:")
		}
	}
	return -1, ""
}

func negotiatedFC(tr *Trace) bool {
	for _, f := range tr.Frames {
		if f.F != nil && f.F.Kind == "new_stream" && f.SendErr == "" {
			return f.F.Revision == 1
		}
	}
	return false
}

func monC03(c *Case, tr *Trace) []Violation {
	var vs []Violation
	di, kind := disturberOf(c)
	add := func(class string, step int, f string, a ...any) {
		vs = append(vs, Violation{Prop: "C03", Class: class, Step: step, Details: fmt.Sprintf(f, a...), Attrs: map[string]string{"disturber": kind}})
	}
	if di < 0 || tr.Aborted != "" {
		return nil
	}
	for _, p := range tr.Panics {
		add("panic", 0, "panic with disturber %s: %s", kind, p)
	}
	drain1, drain2 := tr.PhaseStart["drain2"], tr.PhaseStart["probe"]
	fc := negotiatedFC(tr)
	shutdownStep := -1
	for i, e := range tr.Events {
		if e.Fired >= 0 && (c.Events[i].Kind == "initiate_shutdown" || c.Events[i].Kind == "graceful_stop") {
			shutdownStep = e.Fired
		}
	}
	for i := range c.RPCs {
		if c.RPCs[i].Role != "bystander" {
			continue
		}
		// a bystander that itself started after shutdown is refused by design (that is C10's subject)
		if shutdownStep >= 0 {
			late := true
			k, ok := buildWireIndex(tr).keyOf[i]
			if ok {
				for _, f := range buildWireIndex(tr).byStream[k] {
					if f.F.Kind == "new_stream" && f.Received >= 0 && f.Received < shutdownStep {
						late = false
					}
				}
			}
			if late {
				continue
			}
		}
		if msg := bystanderComplete(c, tr, i, drain2); msg != "" {
			add("bystander_harmed", drain2, "disturber %s (rpc %d): bystander rpc %d (%s) did not complete normally: %s", kind, di, i, c.RPCs[i].Shape, msg)
			continue
		}
		if fc && (kind == "caller_never_reads" || kind == "handler_never_reads") {
			if msg := bystanderComplete(c, tr, i, drain1); msg != "" {
				add("head_of_line_blocking", drain1, "flow control negotiated, disturber %s (rpc %d) reads nothing: bystander rpc %d (%s) had not completed at the drained point before the stalled consumer was released: %s", kind, di, i, c.RPCs[i].Shape, msg)
			}
		}
	}
	// the tunnel itself survives
	for _, t := range tr.Tunnels {
		if t.DoneStep >= 0 && t.DoneStep < tr.PhaseStart["end"] {
			add("tunnel_killed", t.DoneStep, "disturber %s (rpc %d): tunnel %d ended at step %d with error %q", kind, di, t.Idx, t.DoneStep, t.ChanErr)
		} else if t.ServeReturned >= 0 && t.ServeReturned < tr.PhaseStart["end"] {
			add("tunnel_killed", t.ServeReturned, "disturber %s (rpc %d): the serving end of tunnel %d returned at step %d with error %q", kind, di, t.Idx, t.ServeReturned, t.ServeErr)
		}
	}
	if tr.Probe != nil && shutdownStep < 0 {
		if !tr.Probe.Returned || tr.Probe.Code != CodeNil {
			add("tunnel_unusable_afterwards", tr.Probe.Step, "disturber %s (rpc %d): a fresh unary RPC after the run returned=%v code=%d err=%q", kind, di, tr.Probe.Returned, tr.Probe.Code, tr.Probe.Err)
		}
	}
	return vs
}

// ntC03: the disturber's first frame lies strictly between two bystander frames, or a never-reading disturber exhausted a window.
func ntC03(c *Case, tr *Trace) bool {
	di, kind := disturberOf(c)
	if di < 0 {
		return false
	}
	ix := buildWireIndex(tr)
	k, ok := ix.keyOf[di]
	if kind == "caller_never_reads" || kind == "handler_never_reads" {
		for _, o := range tr.Ops {
			if o.RPC == di && o.Kind == "send" && (o.Pending() || o.End > o.Start) {
				return true
			}
		}
	}
	firstSeq := -1
	if ok {
		for _, f := range ix.byStream[k] {
			firstSeq = f.Seq
			break
		}
	} else {
		// the disturber never reached the wire (refused locally): non-trivial if bystanders were in flight when it started
		for _, o := range tr.Ops {
			if o.RPC == di && (o.Kind == "start" || o.Kind == "invoke") {
				before, after := false, false
				for _, f := range tr.Frames {
					if f.F != nil && f.F.ID > 0 && f.Step < o.Start {
						before = true
					}
					if f.F != nil && f.F.ID > 0 && f.Step > o.Start {
						after = true
					}
				}
				return before && after
			}
		}
		return false
	}
	before, after := false, false
	for _, f := range tr.Frames {
		if f.F == nil || f.F.ID <= 0 || f.Stream != k.carrier || f.F.ID == k.id {
			continue
		}
		if f.Seq < firstSeq {
			before = true
		}
		if f.Seq > firstSeq {
			after = true
		}
	}
	return before && after
}
