package harness

import (
	"fmt"

	"pgregory.net/rapid"
)

// genC16App: applications that send once too often on a non-streaming side.
func genC16App(t *rapid.T) *Case {
	c := &Case{Prop: "c16_app"}
	c.Cfg = genConfig(t, []string{"fwd", "rev", "nested"})
	n := rapid.IntRange(1, 3).Draw(t, "nrpcs")
	for i := 0; i < n; i++ {
		r := genBystander(t, fmt.Sprintf("r%d", i))
		r.Role = "app"
		switch rapid.IntRange(0, 2).Draw(t, fmt.Sprintf("r%d.extra", i)) {
		case 0:
			// caller: request side is non-streaming
			r.Shape = rapid.SampledFrom([]string{"unary", "sstream"}).Draw(t, fmt.Sprintf("r%d.shape2", i))
			r.Via = "stream"
			r.Req = []int{rapid.SampledFrom([]int{0, 5, 20000}).Draw(t, fmt.Sprintf("r%d.req0", i))}
			r.ExtraSend = true
			r.HOps = nil
			if r.Shape == "unary" {
				r.Resp = []int{5}
			} else {
				for j := range r.Resp {
					r.HOps = append(r.HOps, MDOp{Kind: "send", Idx: j})
				}
			}
		case 1:
			// handler: response side is non-streaming (a stream handler can call SendMsg twice)
			r.Shape = "cstream"
			r.Resp = []int{rapid.SampledFrom([]int{0, 5, 20000}).Draw(t, fmt.Sprintf("r%d.resp0", i))}
			r.HOps = []MDOp{{Kind: "send", Idx: 0}}
			r.HExtraSend = true
			if len(c.Events) == 0 && rapid.IntRange(0, 2).Draw(t, fmt.Sprintf("r%d.first_fails", i)) == 0 {
				// the first send fails half-way (the response exceeds the window, the caller does not read, a deadline on the
				// serving end passes); the handler tries again: still a second send on a non-streaming side
				r.Resp = []int{70000}
				r.StallRecv = true
				r.HStallSend = rapid.Bool().Draw(t, fmt.Sprintf("r%d.late_sender", i)) // (then even the first send starts after the deadline)
				r.GrpcTimeout = []string{"50m"}
				c.Events = []Event{{Kind: "advance", Ms: 100, After: rapid.IntRange(4, 30).Draw(t, fmt.Sprintf("r%d.deadline_after", i))}}
			}
		}
		c.RPCs = append(c.RPCs, r)
	}
	c.Tape = genTape(t, 0, 150)
	return c
}

func monC16App(c *Case, tr *Trace) []Violation {
	var vs []Violation
	add := func(class string, step int, f string, a ...any) {
		vs = append(vs, Violation{Prop: "C16", Class: class, Step: step, Details: fmt.Sprintf(f, a...)})
	}
	ix := buildWireIndex(tr)
	for i := range c.RPCs {
		sp := &c.RPCs[i]
		k, onWire := ix.keyOf[i]
		count := func(toServer bool) int {
			n := 0
			if onWire {
				for _, f := range ix.byStream[k] {
					if f.F.Kind == "msg" && f.F.ToServer == toServer && f.SendErr == "" {
						n++
					}
				}
			}
			return n
		}
		if sp.ExtraSend {
			for _, o := range tr.Ops {
				if o.RPC == i && o.Side == "caller" && o.Kind == "send" && o.Idx >= len(sp.Req) && !o.Pending() && o.Code == CodeNil {
					add("extra_send_accepted", o.End, "rpc %d (%s): the caller's send #%d on a non-streaming request side returned no error", i, sp.Shape, o.Idx)
				}
			}
			if n := count(true); n > len(sp.Req) {
				add("extra_send_on_wire", 0, "rpc %d (%s): %d request message frames on the wire for a non-streaming request side", i, sp.Shape, n)
			}
		}
		if sp.HExtraSend {
			for _, o := range tr.Ops {
				if o.RPC == i && o.Side == "handler" && o.Kind == "send" && o.Idx >= len(sp.Resp) && !o.Pending() && o.Code == CodeNil {
					add("extra_send_accepted", o.End, "rpc %d (%s): the handler's send #%d on a non-streaming response side returned no error", i, sp.Shape, o.Idx)
				}
			}
			if n := count(false); n > len(sp.Resp) {
				add("extra_send_on_wire", 0, "rpc %d (%s): %d response message frames on the wire for a non-streaming response side", i, sp.Shape, n)
			}
		}
	}
	return vs
}

func ntC16App(c *Case, tr *Trace) bool {
	for _, o := range tr.Ops {
		sp := (*RPC)(nil)
		if o.RPC >= 0 && o.RPC < len(c.RPCs) {
			sp = &c.RPCs[o.RPC]
		}
		if sp == nil || o.Kind != "send" || o.Pending() {
			continue
		}
		if (o.Side == "caller" && sp.ExtraSend && o.Idx >= len(sp.Req)) || (o.Side == "handler" && sp.HExtraSend && o.Idx >= len(sp.Resp)) {
			return true
		}
	}
	return false
}
