package harness

import (
	"fmt"
	"strings"
	"unicode"
	"unicode/utf8"

	"pgregory.net/rapid"
)

var mdKeyGen = rapid.StringMatching(`[a-z][a-z0-9_.-]{0,7}`)

func genMDKey(t *rapid.T, label string, bin bool) string {
	k := mdKeyGen.Draw(t, label)
	for strings.HasPrefix(k, "grpc-") || strings.HasPrefix(k, "x-verif") || strings.HasSuffix(k, "-bin") {
		k = "k" + k
		k = strings.TrimSuffix(k, "-bin")
	}
	if bin {
		k += "-bin"
	}
	return k
}

// genMDValue: printable ASCII for ordinary keys; for -bin keys any byte string that is valid UTF-8 (values that are
// not valid UTF-8 cannot be carried by the wire format: known finding F4, excluded here by construction and counted).
func genMDValue(t *rapid.T, label string, bin bool) string {
	if !bin {
		return rapid.StringOfN(rapid.RuneFrom(nil, &asciiPrintable), 0, 12, -1).Draw(t, label)
	}
	b := rapid.SliceOfN(rapid.Byte(), 0, 12).Draw(t, label)
	s := string(b)
	if !utf8.ValidString(s) {
		// map to a neighbouring legal value: keep the valid prefix, replace the rest
		s = strings.ToValidUTF8(s, "þ")
	}
	return s
}

func genMD(t *rapid.T, label string) map[string][]string {
	switch rapid.IntRange(0, 5).Draw(t, label+".kind") {
	case 0:
		return nil
	case 1:
		return map[string][]string{}
	}
	n := rapid.IntRange(1, 4).Draw(t, label+".nkeys")
	md := map[string][]string{}
	for i := 0; i < n; i++ {
		bin := rapid.IntRange(0, 3).Draw(t, fmt.Sprintf("%s.k%d.bin", label, i)) == 0
		k := genMDKey(t, fmt.Sprintf("%s.k%d", label, i), bin)
		nv := rapid.IntRange(1, 3).Draw(t, fmt.Sprintf("%s.k%d.nv", label, i))
		for j := 0; j < nv; j++ {
			md[k] = append(md[k], genMDValue(t, fmt.Sprintf("%s.k%d.v%d", label, i, j), bin))
		}
	}
	return md
}

func genStatusMsg(t *rapid.T, label string) string {
	switch rapid.IntRange(0, 4).Draw(t, label+".kind") {
	case 0:
		return ""
	case 1:
		return rapid.StringOfN(rapid.RuneFrom(nil, &asciiPrintable), 1, 30, -1).Draw(t, label+".ascii")
	case 2:
		return rapid.StringN(1, 20, -1).Draw(t, label+".unicode")
	case 3:
		return strings.Repeat("long status message é世 ", 170) // ~4 KB, multi-byte
	}
	return "scripted"
}

// genHandlerOps draws a handler behaviour: any order of SetHeader / SendHeader / Send / SetTrailer.
func genHandlerOps(t *rapid.T, label string, r *RPC) {
	nsend := len(r.Resp)
	if r.Shape == "unary" {
		nsend = 0 // the response is the return value
	}
	sent := 0
	n := rapid.IntRange(0, 6).Draw(t, label+".nmdops")
	var ops []MDOp
	for i := 0; i < n+nsend; i++ {
		// choose between a pending send and a metadata op
		remainingMD := n - (len(ops) - sent)
		pick := rapid.IntRange(0, 9).Draw(t, fmt.Sprintf("%s.op%d", label, i))
		if sent < nsend && (remainingMD <= 0 || pick < 4) {
			ops = append(ops, MDOp{Kind: "send", Idx: sent})
			sent++
			continue
		}
		if remainingMD <= 0 {
			continue
		}
		kind := rapid.SampledFrom([]string{"sethdr", "sethdr", "sendhdr", "settrl", "settrl"}).Draw(t, fmt.Sprintf("%s.op%d.kind", label, i))
		ops = append(ops, MDOp{Kind: kind, MD: genMD(t, fmt.Sprintf("%s.op%d.md", label, i))})
	}
	for sent < nsend {
		ops = append(ops, MDOp{Kind: "send", Idx: sent})
		sent++
	}
	r.HOps = ops
}

func genC02RPC(t *rapid.T, label string) RPC {
	r := RPC{Shape: genShape(t, label+".shape")}
	if r.Shape == "unary" && rapid.IntRange(0, 9).Draw(t, label+".via") < 4 {
		r.Via = "stream"
	}
	small := func(l string, min, max int) []int {
		n := rapid.IntRange(min, max).Draw(t, l+".n")
		out := make([]int, n)
		for i := range out {
			out[i] = rapid.SampledFrom([]int{0, 1, 9, 200, 16381, 20000}).Draw(t, fmt.Sprintf("%s[%d]", l, i))
		}
		return out
	}
	if reqStreams(r.Shape) {
		r.Req = small(label+".req", 0, 3)
	} else {
		r.Req = small(label+".req", 1, 1)
	}
	// status
	if rapid.IntRange(0, 2).Draw(t, label+".fail") == 0 {
		r.Code = rapid.IntRange(1, 16).Draw(t, label+".code")
		r.Msg = genStatusMsg(t, label+".msg")
		nd := rapid.IntRange(0, 3).Draw(t, label+".ndetails")
		for i := 0; i < nd; i++ {
			r.Details = append(r.Details, rapid.StringN(0, 8, -1).Draw(t, fmt.Sprintf("%s.detail%d", label, i)))
		}
	}
	if respStreams(r.Shape) {
		r.Resp = small(label+".resp", 0, 3)
	} else if r.Code == 0 || (r.Shape == "cstream" && rapid.Bool().Draw(t, label+".resp_before_error")) {
		r.Resp = small(label+".resp", 1, 1)
	}
	genHandlerOps(t, label+".h", &r)
	// request metadata / call options
	switch rapid.IntRange(0, 5).Draw(t, label+".mdmode") {
	case 0:
		r.NoMD = true
	default:
		r.ReqMD = genMD(t, label+".reqmd")
	}
	if rapid.IntRange(0, 2).Draw(t, label+".creds") == 0 {
		cr := &Creds{MD: map[string]string{}}
		n := rapid.IntRange(0, 2).Draw(t, label+".creds.n")
		for i := 0; i < n; i++ {
			cr.MD[genMDKey(t, fmt.Sprintf("%s.creds.k%d", label, i), false)] = genMDValue(t, fmt.Sprintf("%s.creds.v%d", label, i), false)
		}
		// collide with a request key sometimes
		if len(r.ReqMD) > 0 && rapid.Bool().Draw(t, label+".creds.collide") {
			for k := range r.ReqMD {
				if !strings.HasSuffix(k, "-bin") {
					cr.MD[k] = "from-creds"
					break
				}
			}
		}
		switch rapid.IntRange(0, 9).Draw(t, label+".creds.mode") {
		case 0:
			cr.RequireTLS = true
		case 1:
			cr.Fail = true
		}
		r.Creds = cr
	}
	r.HdrOpt = rapid.Bool().Draw(t, label+".hdropt")
	r.TrlOpt = rapid.Bool().Draw(t, label+".trlopt")
	r.PeerOpt = rapid.IntRange(0, 3).Draw(t, label+".peeropt") == 0
	r.CallHeader = rapid.SampledFrom([]int{0, 1, 1, 2, -1}).Draw(t, label+".callheader")
	r.ExtraRecvs = rapid.IntRange(0, 2).Draw(t, label+".extrarecvs")
	r.Opt2 = (r.HdrOpt || r.TrlOpt || r.PeerOpt) && rapid.IntRange(0, 2).Draw(t, label+".opt2") == 0
	return r
}

func genC02(t *rapid.T) *Case {
	c := &Case{Prop: "c02"}
	c.Cfg = genConfig(t, allDirs)
	c.Cfg.Tunnels = []TunnelSpec{{Peer: "10.1.2.3:4567"}}
	n := rapid.IntRange(1, 3).Draw(t, "nrpcs")
	for i := 0; i < n; i++ {
		c.RPCs = append(c.RPCs, genC02RPC(t, fmt.Sprintf("rpc%d", i)))
	}
	// at most one RPC without any tag transport (no metadata and no credentials)
	untagged := 0
	for i := range c.RPCs {
		if c.RPCs[i].NoMD && c.RPCs[i].Creds == nil {
			untagged++
			if untagged > 1 {
				c.RPCs[i].NoMD = false
			}
		}
	}
	if rapid.IntRange(0, 2).Draw(t, "yield") > 0 {
		c.Yields = append(c.Yields, Yield{
			Point:  rapid.SampledFrom([]string{"client.finish.beforeTrailers", "receiver.closure.afterWake", "receiver.closure.afterWake", "server.finish.afterCancel", "client.cancel.afterFinish"}).Draw(t, "yield.point"),
			Nth:    rapid.IntRange(0, 3).Draw(t, "yield.nth"),
			Repeat: rapid.IntRange(1, 3).Draw(t, "yield.repeat"),
			Kind:   rapid.SampledFrom([]string{"gosched", "sleep"}).Draw(t, "yield.kind"),
		})
	}
	if rapid.IntRange(0, 3).Draw(t, "park") == 0 {
		// hold an Invoke between sending its request and half-closing, while the tape delivers frames
		c.Yields = append(c.Yields, Yield{Point: "client.invoke.afterSend", Nth: rapid.IntRange(0, 2).Draw(t, "park.nth"), Kind: "park"})
	}
	c.Tape = genTape(t, 0, 120)
	return c
}

var asciiPrintable = unicode.RangeTable{R16: []unicode.Range16{{Lo: 0x20, Hi: 0x7e, Stride: 1}}, LatinOffset: 1}
