package harness

import (
	"fmt"

	"pgregory.net/rapid"
)

// payloadFor returns the payload size whose serialized BytesValue is exactly t bytes (or the nearest below).
func payloadFor(t int) int {
	for n := t; n >= 0; n-- {
		if wireSize(n) <= t {
			return n
		}
	}
	return 0
}

var boundaryWire = []int{0, 3, 16383, 16384, 16385, 32767, 32768, 32769, 49151, 49152, 49153, 65535, 65536, 65537, 81919, 81920, 81921, 131071, 131072, 131073}

// genSize draws a payload size, biased to the chunk and window boundaries.
func genSize(t *rapid.T, label string, allowHuge bool) int {
	switch k := rapid.IntRange(0, 19).Draw(t, label+".class"); {
	case k < 6:
		return rapid.IntRange(0, 200).Draw(t, label+".small")
	case k < 12:
		return payloadFor(rapid.SampledFrom(boundaryWire).Draw(t, label+".boundary"))
	case k < 17:
		return rapid.IntRange(0, 70000).Draw(t, label+".mid")
	case k < 19:
		return rapid.IntRange(70000, 300000).Draw(t, label+".large")
	default:
		if allowHuge && rapid.IntRange(0, 5).Draw(t, label+".hugegate") == 0 {
			return rapid.IntRange(1<<20, 4<<20).Draw(t, label+".huge")
		}
		return rapid.IntRange(0, 70000).Draw(t, label+".mid2")
	}
}

func genSizes(t *rapid.T, label string, min, max int, allowHuge bool) []int {
	n := rapid.IntRange(min, max).Draw(t, label+".n")
	out := make([]int, n)
	for i := range out {
		out[i] = genSize(t, fmt.Sprintf("%s[%d]", label, i), allowHuge)
	}
	return out
}

func genShape(t *rapid.T, label string) string {
	return rapid.SampledFrom([]string{"unary", "cstream", "sstream", "bidi", "bidi"}).Draw(t, label)
}

func genFC(t *rapid.T, label string) string {
	return rapid.SampledFrom([]string{"on", "on", "on", "on", "on", "on", "on", "off", "off", "legacy"}).Draw(t, label)
}

func genConfig(t *rapid.T, dirs []string) Config {
	cfg := Config{}
	cfg.Dir = rapid.SampledFrom(dirs).Draw(t, "dir")
	cfg.ClientFC = genFC(t, "client_fc")
	cfg.ServerFC = genFC(t, "server_fc")
	cfg.Cap = rapid.SampledFrom([]int{0, 0, 0, 1, 2, 8}).Draw(t, "cap")
	return cfg
}

func genTape(t *rapid.T, min, max int) []int {
	return rapid.SliceOfN(rapid.IntRange(0, 31), min, max).Draw(t, "tape")
}

// genBasicRPC draws an RPC with a plain handler: sends in order, OK status.
func genBasicRPC(t *rapid.T, label string, maxMsgs int, allowHuge bool) RPC {
	r := RPC{Shape: genShape(t, label+".shape")}
	if r.Shape == "unary" && rapid.IntRange(0, 9).Draw(t, label+".via") < 3 {
		r.Via = "stream"
	}
	if reqStreams(r.Shape) {
		r.Req = genSizes(t, label+".req", 0, maxMsgs, allowHuge)
	} else {
		r.Req = genSizes(t, label+".req", 1, 1, allowHuge)
	}
	if respStreams(r.Shape) {
		r.Resp = genSizes(t, label+".resp", 0, maxMsgs, allowHuge)
	} else {
		r.Resp = genSizes(t, label+".resp", 1, 1, allowHuge)
	}
	if r.Shape != "unary" {
		for i := range r.Resp {
			r.HOps = append(r.HOps, MDOp{Kind: "send", Idx: i})
		}
	}
	r.Fuse = genFuse(t, label)
	r.ReuseMsg = rapid.IntRange(0, 3).Draw(t, label+".reusemsg") == 0
	r.RecvUnknown = !r.ReuseMsg && rapid.IntRange(0, 4).Draw(t, label+".recvunknown") == 0
	return r
}

// genFuse: which side's actors run their operations back to back instead of one per scheduler step.
func genFuse(t *rapid.T, label string) string {
	return rapid.SampledFrom([]string{"", "", "", "", "h", "c", "both"}).Draw(t, label+".fuse")
}

var allDirs = []string{"fwd", "fwd", "fwd", "fwd", "rev", "rev", "rev", "nested", "nestedrev"}

// genMixed: the general workload: 1-6 concurrent RPCs of mixed shapes, boundary-biased sizes, random configuration and tape.
func genMixed(t *rapid.T) *Case {
	c := &Case{Prop: "mixed"}
	c.Cfg = genConfig(t, allDirs)
	n := rapid.IntRange(1, 6).Draw(t, "nrpcs")
	budget := 0
	for i := 0; i < n; i++ {
		r := genBasicRPC(t, fmt.Sprintf("rpc%d", i), 5, budget < 2)
		for _, s := range append(append([]int{}, r.Req...), r.Resp...) {
			if s >= 1<<20 {
				budget++
			}
		}
		if rapid.IntRange(0, 9).Draw(t, fmt.Sprintf("rpc%d.err", i)) == 0 {
			r.Code = rapid.IntRange(1, 16).Draw(t, "code")
			r.Msg = "scripted"
			if !respStreams(r.Shape) {
				r.Resp = nil
				r.HOps = nil
			}
		}
		if rapid.IntRange(0, 3).Draw(t, fmt.Sprintf("rpc%d.again", i)) == 0 {
			r.ExtraRecvs = rapid.IntRange(1, 2).Draw(t, fmt.Sprintf("rpc%d.again.n", i)) // Recv calls after the terminal result
		}
		c.RPCs = append(c.RPCs, r)
	}
	if rapid.IntRange(0, 5).Draw(t, "late_send") == 0 {
		// one carrier SendMsg returns late: its frame travels (and may be answered) while the sending call is still held
		c.Yields = append(c.Yields, Yield{Point: "carrier.send.afterPush", Nth: rapid.IntRange(0, 14).Draw(t, "late_send.nth"), Kind: "park"})
	}
	c.Tape = genTape(t, 0, 400)
	return c
}

var termKinds = []string{"cancel_rpc", "cancel_rpc", "close_channel", "cancel_open", "break_client", "break_server", "break_both", "stop", "advance"}

// genMixedTerm: mixed workload plus one termination event at a drawn frame boundary.
func genMixedTerm(t *rapid.T) *Case {
	c := genMixed(t)
	c.Prop = "mixed_term"
	kind := rapid.SampledFrom(termKinds).Draw(t, "term.kind")
	ev := Event{Kind: kind, After: rapid.IntRange(0, 60).Draw(t, "term.after")}
	switch kind {
	case "cancel_rpc":
		ev.Target = rapid.IntRange(0, len(c.RPCs)-1).Draw(t, "term.rpc")
	case "stop":
		if c.Cfg.Dir != "rev" && c.Cfg.Dir != "nestedrev" {
			ev.Kind = "close_channel"
		}
	case "advance":
		// a deadline on one RPC that expires at the event
		i := rapid.IntRange(0, len(c.RPCs)-1).Draw(t, "term.rpc")
		c.RPCs[i].Timeout = 50
		ev.Ms = 100
	}
	c.Events = []Event{ev}
	for i := range c.RPCs {
		if !(kind == "cancel_rpc" && ev.Target == i) && c.RPCs[i].Timeout == 0 && rapid.IntRange(0, 3).Draw(t, fmt.Sprintf("rpc%d.nocancel", i)) == 0 {
			c.RPCs[i].NoCancelCtx = true // context.Background(): only the end of the tunnel can end this call
		}
	}
	if rapid.IntRange(0, 5).Draw(t, "park_reader") == 0 {
		// hold a handler's reader between its context check and its dequeue while the termination event strikes
		c.Yields = append(c.Yields, Yield{Point: "server.read.beforeDequeue", Nth: rapid.IntRange(0, 8).Draw(t, "park_reader.nth"), Kind: "park"})
	}
	if rapid.IntRange(0, 3).Draw(t, "yield") == 0 {
		c.Yields = append(c.Yields, Yield{
			Point: rapid.SampledFrom([]string{"server.finish.afterCancel", "receiver.dequeue.beforeCredit", "client.finish.beforeTrailers", "client.cancel.afterFinish", "server.halfClose.beforeReceiverClose", "receiver.closure.afterWake"}).Draw(t, "yield.point"),
			Nth:   rapid.IntRange(0, 6).Draw(t, "yield.nth"),
			Kind:  rapid.SampledFrom([]string{"gosched", "sleep"}).Draw(t, "yield.kind"),
		})
	}
	return c
}

// genMixedTermBounded: mixed workload with a termination event over a bounded carrier (senders park inside the carrier).
func genMixedTermBounded(t *rapid.T) *Case {
	c := genMixedTerm(t)
	c.Prop = "mixed_term_bounded"
	c.Cfg.Cap = rapid.SampledFrom([]int{1, 1, 2}).Draw(t, "cap_bounded")
	if rapid.IntRange(0, 2).Draw(t, "slow_creds") == 0 {
		// an RPC whose per-RPC credentials callback is held (application code) while the termination event strikes
		i := rapid.IntRange(0, len(c.RPCs)-1).Draw(t, "slow_creds.rpc")
		c.RPCs[i].Creds = &Creds{MD: map[string]string{"tok": "v"}}
		c.Yields = append(c.Yields, Yield{Point: "cb.creds", Nth: 0, Kind: "park"})
	}
	return c
}

// genMixedSrvDeadline: mixed workload in which one RPC carries a grpc-timeout header, i.e. a deadline that exists on the serving
// end only: when virtual time passes it the handler's context ends while the caller - unaware - keeps sending, so request
// frames still arrive for a stream whose receiver was cancelled. A slow or parked reader must never be handed what arrives after.
func genMixedSrvDeadline(t *rapid.T) *Case {
	c := genMixed(t)
	c.Prop = "mixed_srvdeadline"
	// the victim streams requests
	i := rapid.IntRange(0, len(c.RPCs)-1).Draw(t, "victim")
	v := &c.RPCs[i]
	if !reqStreams(v.Shape) {
		v.Shape = rapid.SampledFrom([]string{"cstream", "bidi"}).Draw(t, "victim.shape")
		v.Via = ""
		if !respStreams(v.Shape) && len(v.Resp) != 1 {
			v.Resp = []int{5}
		}
		v.HOps = nil
		for j := range v.Resp {
			v.HOps = append(v.HOps, MDOp{Kind: "send", Idx: j})
		}
	}
	for len(v.Req) < 4 {
		v.Req = append(v.Req, rapid.SampledFrom([]int{0, 5, 300, 16381, 20000}).Draw(t, fmt.Sprintf("victim.req%d", len(v.Req))))
	}
	v.GrpcTimeout = []string{"50m"}
	v.HStallRecv = rapid.Bool().Draw(t, "victim.slow_reader")
	c.Events = []Event{{Kind: "advance", Ms: 100, After: rapid.IntRange(0, 30).Draw(t, "deadline.after")}}
	c.Yields = nil
	if rapid.IntRange(0, 2).Draw(t, "park_reader") == 0 {
		c.Yields = append(c.Yields, Yield{Point: "server.read.beforeDequeue", Nth: rapid.IntRange(0, 8).Draw(t, "park_reader.nth"), Kind: "park"})
	}
	return c
}
