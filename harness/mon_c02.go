package harness

import (
	"fmt"
	"reflect"
	"sort"
	"strings"
)

func mdEqual(a, b map[string][]string) bool {
	if len(a) != len(b) {
		return false
	}
	for k, av := range a {
		bv, ok := b[k]
		if !ok || len(av) != len(bv) {
			return false
		}
		for i := range av {
			if av[i] != bv[i] {
				return false
			}
		}
	}
	return true
}

func mdJoin(dst map[string][]string, src map[string][]string) map[string][]string {
	if dst == nil {
		dst = map[string][]string{}
	}
	for k, v := range src {
		dst[k] = append(dst[k], v...)
	}
	return dst
}

// expectedRequestMD: what the handler must see as incoming metadata.
func expectedRequestMD(i int, sp *RPC) map[string][]string {
	md := map[string][]string{}
	tag := fmt.Sprint(i)
	if !sp.NoMD {
		for k, v := range decMD(sp.ReqMD) {
			md[k] = v
		}
		md[tagKey] = []string{tag}
		for _, v := range sp.GrpcTimeout {
			md["grpc-timeout"] = append(md["grpc-timeout"], decStr(v))
		}
	}
	if sp.Creds != nil {
		keys := make([]string, 0, len(sp.Creds.MD))
		for k := range sp.Creds.MD {
			keys = append(keys, k)
		}
		sort.Strings(keys)
		for _, k := range keys {
			md[k] = append(md[k], sp.Creds.MD[k])
		}
		if sp.NoMD {
			md[tagKey] = append(md[tagKey], tag)
		}
	}
	return md
}

// handlerModel replays the handler's header/trailer operations.
type handlerModel struct {
	hdr, trl map[string][]string
	refused  map[int]bool // indexes of HOps that must be refused (header op after the send point)
}

func modelHandler(sp *RPC) handlerModel {
	m := handlerModel{hdr: map[string][]string{}, trl: map[string][]string{}, refused: map[int]bool{}}
	sent := false
	for i, op := range sp.HOps {
		switch op.Kind {
		case "sethdr":
			if sent {
				// setting no metadata at all loses nothing (grpc.SetHeader itself returns early for an empty map)
				if len(op.MD) > 0 {
					m.refused[i] = true
				}
			} else {
				m.hdr = mdJoin(m.hdr, decMD(op.MD))
			}
		case "sendhdr":
			if sent {
				if len(op.MD) > 0 {
					m.refused[i] = true
				}
			} else {
				m.hdr = mdJoin(m.hdr, decMD(op.MD))
				sent = true
			}
		case "send":
			if sp.Shape != "unary" {
				sent = true
			}
		case "settrl":
			m.trl = mdJoin(m.trl, decMD(op.MD))
		}
	}
	return m
}

func expectedDetails(sp *RPC) []string {
	var out []string
	for _, d := range sp.Details {
		out = append(out, "type.verif/"+d+"|"+d)
	}
	return out
}

// startMustFail: the call is refused locally by its credentials.
func startMustFail(c *Case, sp *RPC) bool {
	if sp.Creds == nil {
		return false
	}
	return sp.Creds.Fail || sp.Creds.RequireTLS // carriers in this harness are insecure (no AuthInfo)
}

func monC02(c *Case, tr *Trace) []Violation {
	var vs []Violation
	add := func(class string, step int, f string, a ...any) {
		vs = append(vs, Violation{Prop: "C02", Class: class, Step: step, Details: fmt.Sprintf(f, a...)})
	}
	// only runs without faults are judged by equality with the model
	for _, e := range tr.Events {
		if e.Fired >= 0 {
			return nil
		}
	}
	for _, p := range tr.Panics {
		add("panic", 0, "panic: %s", p)
	}
	for i := range c.RPCs {
		sp := &c.RPCs[i]
		var inv *Invocation
		for _, x := range tr.Invocations {
			if x.RPC == i {
				inv = x
				break
			}
		}
		var ops []*OpRec
		for _, o := range tr.Ops {
			if o.RPC == i {
				ops = append(ops, o)
			}
		}
		if startMustFail(c, sp) {
			for _, o := range ops {
				if (o.Kind == "start" || o.Kind == "invoke") && !o.Pending() && o.Code == CodeNil {
					add("credentials_not_enforced", o.End, "rpc %d: call started although its per-RPC credentials must refuse it (%+v)", i, *sp.Creds)
				}
			}
			if inv != nil {
				add("credentials_not_enforced", inv.Step, "rpc %d: handler invoked although the per-RPC credentials must refuse the call", i)
			}
			continue
		}
		if sp.Method != "" {
			continue
		}
		if inv == nil {
			for _, o := range ops {
				if !o.Pending() && (o.Kind == "start" || o.Kind == "invoke") && o.Code != CodeNil {
					add("call_failed_to_start", o.End, "rpc %d: %s failed: %s", i, o.Kind, o.Err)
				}
			}
			continue
		}
		// --- request metadata
		want := expectedRequestMD(i, sp)
		if !mdEqual(want, inv.MD) {
			add("request_metadata_mismatch", inv.Step, "rpc %d: handler saw request metadata %s; caller attached %s", i, mdString(inv.MD), mdString(want))
		}
		m := modelHandler(sp)
		// --- refused header ops
		for _, o := range ops {
			if o.Side != "handler" || o.Pending() {
				continue
			}
			if (o.Kind == "sethdr" || o.Kind == "sendhdr") && o.Idx < len(sp.HOps) {
				if m.refused[o.Idx] && o.Code == CodeNil {
					add("late_header_silently_dropped", o.End, "rpc %d: handler %s #%d after headers were sent returned no error", i, o.Kind, o.Idx)
				}
				if !m.refused[o.Idx] && o.Code != CodeNil && !lateHeaderOp(sp, o.Idx) {
					add("header_op_failed", o.End, "rpc %d: handler %s #%d failed: %s", i, o.Kind, o.Idx, o.Err)
				}
			}
		}
		// --- status
		wantCode := sp.Code
		wantDetails := expectedDetails(sp)
		checkStatus := func(o *OpRec) {
			if wantCode == 0 {
				return
			}
			if o.Code != wantCode {
				add("status_code_mismatch", o.End, "rpc %d: caller got code %d (%s); handler returned code %d", i, o.Code, o.Err, wantCode)
				return
			}
			if o.Msg != sp.Msg {
				add("status_message_mismatch", o.End, "rpc %d: caller got status message %q; handler returned %q", i, trunc(o.Msg), trunc(sp.Msg))
			}
			if !reflect.DeepEqual(append([]string{}, o.Details...), append([]string{}, wantDetails...)) {
				add("status_details_mismatch", o.End, "rpc %d: caller got details %q; handler returned %q", i, o.Details, wantDetails)
			}
		}
		var terminal *OpRec
		okRecvs := 0
		for _, o := range ops {
			if o.Side != "caller" || o.Pending() {
				continue
			}
			switch o.Kind {
			case "invoke":
				terminal = o
				if wantCode == 0 && o.Code != CodeNil {
					add("status_code_mismatch", o.End, "rpc %d: Invoke failed with code %d (%s); handler returned OK", i, o.Code, o.Err)
				}
				if wantCode != 0 {
					if o.Code == CodeNil {
						add("status_code_mismatch", o.End, "rpc %d: Invoke returned OK; handler returned code %d", i, wantCode)
					} else {
						checkStatus(o)
					}
				}
			case "recv":
				if terminal != nil {
					continue
				}
				if o.Code == CodeNil {
					okRecvs++
					if !respStreams(sp.Shape) && wantCode != 0 {
						// a non-streaming response is read by ONE Recv (generated stubs call it once): it must report the
						// handler's non-OK status even if the handler had sent a message first
						add("status_swallowed", o.End, "rpc %d (%s): the single Recv of a non-streaming response returned a message and no error although the handler returned code %d", i, sp.Shape, wantCode)
					}
					continue
				}
				terminal = o
				if wantCode == 0 {
					if o.Code != CodeEOF {
						add("status_code_mismatch", o.End, "rpc %d: caller's terminal result is code %d (%s); handler returned OK", i, o.Code, o.Err)
					}
				} else if o.Code == CodeEOF {
					add("status_code_mismatch", o.End, "rpc %d: caller saw OK (EOF); handler returned code %d", i, wantCode)
				} else {
					checkStatus(o)
				}
			case "recv_again":
				if terminal != nil && o.Code != terminal.Code {
					add("terminal_result_not_repeated", o.End, "rpc %d: Recv after the terminal result returned code %d, terminal was %d", i, o.Code, terminal.Code)
				}
			}
		}
		// --- headers and trailers at the points where they must be available
		for _, o := range ops {
			if o.Side != "caller" || o.Pending() {
				continue
			}
			switch o.Kind {
			case "header":
				if o.Code != CodeNil {
					add("header_call_failed", o.End, "rpc %d: Header() failed: %s", i, o.Err)
				} else if !mdEqual(o.MD, m.hdr) {
					add("header_mismatch", o.End, "rpc %d: Header() returned %s; handler set %s", i, mdString(o.MD), mdString(m.hdr))
				}
			case "trailer":
				if !mdEqual(o.MD, m.trl) {
					add("trailer_mismatch", o.End, "rpc %d: Trailer() returned %s; handler set %s", i, mdString(o.MD), mdString(m.trl))
				}
			case "recv", "invoke":
				if o.Kind == "recv" && (o.Code == CodeNil || o == terminal) {
					if o.HeaderNow != nil || o.HeaderNowSet {
						if !o.HeaderNowSet {
							add("header_not_available", o.End, "rpc %d: Header() blocked right after Recv #%d had returned", i, o.Idx)
						} else if !mdEqual(o.HeaderNow, m.hdr) {
							add("header_mismatch", o.End, "rpc %d: Header() right after Recv #%d returned %s; handler set %s", i, o.Idx, mdString(o.HeaderNow), mdString(m.hdr))
						}
					} else if o.Extra["header_now_attempted"] == "1" {
						add("header_not_available", o.End, "rpc %d: Header() blocked right after Recv #%d had returned", i, o.Idx)
					}
				}
				if o.HeaderOptNow != nil && (o.Kind == "invoke" || o.Code == CodeNil || o == terminal) {
					if !mdEqual(o.HeaderOptNow, m.hdr) {
						add("header_option_mismatch", o.End, "rpc %d: grpc.Header target after %s #%d holds %s; handler set %s", i, o.Kind, o.Idx, mdString(o.HeaderOptNow), mdString(m.hdr))
					}
				}
				if d := o.Extra["opt2_differs"]; d != "" && (o.Kind == "invoke" || o.Code == CodeNil || o == terminal) {
					add("repeated_option_location_not_filled", o.End, "rpc %d: the call passed each metadata / peer option twice; after %s #%d: %s", i, o.Kind, o.Idx, d)
				}
				isTerminal := o == terminal || (o.Kind == "recv" && o.Code == CodeNil && !respStreams(sp.Shape))
				if isTerminal {
					if o.TrailerNow != nil && !mdEqual(o.TrailerNow, m.trl) {
						add("trailer_not_published", o.End, "rpc %d: Trailer() right after the terminal %s #%d returned %s; handler set %s", i, o.Kind, o.Idx, mdString(o.TrailerNow), mdString(m.trl))
					}
					if o.TrailerOptNow != nil && !mdEqual(o.TrailerOptNow, m.trl) {
						add("trailer_option_not_published", o.End, "rpc %d: grpc.Trailer target right after the terminal %s #%d holds %s; handler set %s", i, o.Kind, o.Idx, mdString(o.TrailerOptNow), mdString(m.trl))
					}
				}
			}
		}
	}
	return vs
}

// lateHeaderOp: op i is a header op placed after the send point (it may be refused or, when empty, accepted).
func lateHeaderOp(sp *RPC, i int) bool {
	sent := false
	for j, op := range sp.HOps {
		if j == i {
			return sent
		}
		if op.Kind == "sendhdr" || (op.Kind == "send" && sp.Shape != "unary") {
			sent = true
		}
	}
	return false
}

func trunc(s string) string {
	if len(s) > 60 {
		return s[:60] + "..."
	}
	return s
}

var _ = strings.Join
