package harness

// memconn: a harness-owned in-memory gRPC carrier. It implements
// grpc.ClientConnInterface; NewStream creates a connected pair of
// (grpc.ClientStream, grpc.ServerStream) and runs the registered handler on
// the server half. Every message is held "in flight" until the harness says
// deliver (or delivered at once in auto mode); the behaviours that the tunnel
// code depends on are copied from grpc-go (see DESIGN.md section 3.2).

import (
	"context"
	"fmt"
	"io"
	"net"
	"sync"
	"sync/atomic"

	"google.golang.org/grpc"
	"google.golang.org/grpc/codes"
	"google.golang.org/grpc/metadata"
	"google.golang.org/grpc/peer"
	"google.golang.org/grpc/status"
	"google.golang.org/protobuf/proto"
)

type itemKind int

const (
	itMsg    itemKind = iota
	itHeader          // response headers (s2c only)
	itEOF             // client half-close (c2s only)
	itStatus          // handler returned: status + trailers (s2c only)
	itReset           // client cancelled / finished abnormally (c2s only)
)

func (k itemKind) String() string {
	return [...]string{"msg", "header", "eof", "status", "reset"}[k]
}

type item struct {
	kind itemKind
	data []byte
	md   metadata.MD
	st   *status.Status
	seq  int // tap sequence number for msg items
}

// Dir is a direction on a carrier stream.
type Dir int

const (
	C2S Dir = iota // network client -> network server
	S2C
)

func (d Dir) String() string {
	if d == C2S {
		return "c2s"
	}
	return "s2c"
}

// FrameRec is one carrier message as seen by the wire tap.
type FrameRec struct {
	Seq       int
	Step      int // scheduler step in which it was sent
	Stream    int // carrier stream index
	Dir       Dir
	Len       int    // serialized length
	F         *TFrame // decoded tunnel frame (nil if the message is not a tunnel frame)
	SendErr   string // non-empty if SendMsg failed (message never entered the pipe)
	Delivered int    // step at which it was delivered (-1: never)
	Received  int    // step at which the receiving endpoint's RecvMsg returned it (-1: never)
	Type      string // "c2s" for tunnelpb.ClientToServer, "s2c" for ServerToClient, or other
}

type svcEntry struct {
	srv     any
	handler grpc.StreamHandler
}

// Net owns all carrier streams of one simulation.
type Net struct {
	mu       sync.Mutex
	cond     *sync.Cond
	services map[string]svcEntry
	streams  []*Stream
	frames   []*FrameRec
	step     int
	panics   []string
	misuseMu sync.Mutex
	misuse   []string
	// KeepBytes controls whether the tap keeps serialized frames (needed by the monitors).
	onHandlerDone func(s *Stream, err error)
	// AfterSend, if set, runs after a successful SendMsg has queued its frame and before the call returns (no lock held).
	AfterSend func(s *Stream, d Dir)
}

func NewNet() *Net {
	n := &Net{services: map[string]svcEntry{}}
	n.cond = sync.NewCond(&n.mu)
	return n
}

// RegisterService implements grpc.ServiceRegistrar (streams only: the tunnel
// service has only streaming methods).
func (n *Net) RegisterService(desc *grpc.ServiceDesc, srv any) {
	n.mu.Lock()
	defer n.mu.Unlock()
	for i := range desc.Streams {
		sd := desc.Streams[i]
		n.services["/"+desc.ServiceName+"/"+sd.StreamName] = svcEntry{srv: srv, handler: sd.Handler}
	}
}

func (n *Net) SetStep(s int) {
	n.mu.Lock()
	n.step = s
	n.mu.Unlock()
}

func (n *Net) noteMisuse(m string) {
	n.misuseMu.Lock()
	if len(n.misuse) < 8 {
		n.misuse = append(n.misuse, m)
	}
	n.misuseMu.Unlock()
}

// Misuse lists the concurrent-use violations the library committed against carrier streams.
func (n *Net) Misuse() []string {
	n.misuseMu.Lock()
	defer n.misuseMu.Unlock()
	return append([]string(nil), n.misuse...)
}

func (n *Net) Panics() []string {
	n.mu.Lock()
	defer n.mu.Unlock()
	return append([]string(nil), n.panics...)
}

func (n *Net) Streams() []*Stream {
	n.mu.Lock()
	defer n.mu.Unlock()
	return append([]*Stream(nil), n.streams...)
}

// Frames returns the tap records (shared pointers; read only at quiescence).
func (n *Net) Frames() []*FrameRec {
	n.mu.Lock()
	defer n.mu.Unlock()
	return append([]*FrameRec(nil), n.frames...)
}

// ConnOpts configures one logical connection (one network client).
type ConnOpts struct {
	PeerAddr    string // address the server sees as peer; "" = none
	PeerSecure  bool   // server-side peer carries AuthInfo
	ServerAddr  string // address the client sees as peer (grpc sets peer on client streams too)
	ClientSecure bool
	CtxValue    any  // value an "interceptor" stores in the server context
	StripReqNegotiate  bool // emulate a legacy network client: remove the negotiate key from the request metadata
	StripRespNegotiate bool // emulate a legacy network server: remove the negotiate key from the response headers
	InterceptMD map[string][]string // outgoing metadata a client stream interceptor adds to every call made through this connection
	ServerOutMD map[string][]string // outgoing metadata a server stream interceptor stores in the server context (propagation to downstream calls)
	Auto     bool // deliver immediately
	Capacity int  // max undelivered+unreceived messages per direction; 0 = unbounded
}

// InterceptorKey is the context key under which ConnOpts.CtxValue is stored in server contexts.
type InterceptorKey struct{}

type Conn struct {
	net     *Net
	opts    ConnOpts
	created []*Stream // guarded by net.mu
}

// Created returns the carrier streams opened through this connection.
func (c *Conn) Created() []*Stream {
	c.net.mu.Lock()
	defer c.net.mu.Unlock()
	return append([]*Stream(nil), c.created...)
}

func (n *Net) Conn(opts ConnOpts) *Conn { return &Conn{net: n, opts: opts} }

// HoldNew makes streams opened through this connection from now on start with
// manual delivery (and the given capacity).
func (c *Conn) HoldNew(capacity int) {
	c.net.mu.Lock()
	defer c.net.mu.Unlock()
	c.opts.Auto = false
	c.opts.Capacity = capacity
}

type addr string

func (a addr) Network() string { return "mem" }
func (a addr) String() string  { return string(a) }

var _ net.Addr = addr("")

type authInfo struct{}

func (authInfo) AuthType() string { return "verif" }

func (c *Conn) Invoke(ctx context.Context, method string, args any, reply any, opts ...grpc.CallOption) error {
	return status.Error(codes.Unimplemented, "memconn: unary carrier calls not supported")
}

// Stream is one carrier stream (both halves).
type Stream struct {
	net    *Net
	Idx    int
	Method string
	opts   ConnOpts

	cctx    context.Context
	ccancel context.CancelFunc
	sctx    context.Context
	scancel context.CancelFunc

	// all fields below guarded by net.mu
	auto bool
	pipe [2]pipeState

	hdrSet      metadata.MD // accumulated by SetHeader
	hdrSent     bool
	hdrReady    bool // header (or trailers-only status) has been delivered to the client
	hdr         metadata.MD
	hdrValid    bool
	trl         metadata.MD // set by handler
	cliTrailer  metadata.MD // trailers as received by the client
	cliStatus   *status.Status
	cliFinished bool // status delivered to client side, or client finished locally
	cliErr      error // terminal error for client ops (break / ctx)
	srvDone     bool  // handler returned or stream written status
	srvErr      error // terminal error for server ops
	cliReset    bool  // client sent reset
	recvTerm    error // sticky terminal result of client RecvMsg

	capWaiters [2]int
	brokeClient, brokeServer bool

	HandlerErr  error
	HandlerDone bool

	// concurrent-use detection (grpc-go: SendMsg must not be called concurrently with SendMsg or CloseSend on the same
	// stream, nor RecvMsg with RecvMsg); counted outside net.mu so that a call waiting for the lock is seen
	cliSending, cliRecving, srvSending, srvRecving atomic.Int32
}

// enter notes the start of a carrier-stream call of one kind; it reports a misuse when another call of that kind is
// already under way on the same stream half.
func (s *Stream) enter(ctr *atomic.Int32, what string) func() {
	if ctr.Add(1) > 1 {
		s.net.noteMisuse(fmt.Sprintf("carrier stream %d (%s): %s called while another such call was in progress on the same stream", s.Idx, s.Method, what))
	}
	return func() { ctr.Add(-1) }
}

type pipeState struct {
	inflight []item
	ready    []item
	sink     bool // receiver gone: accept and discard
}

func (p *pipeState) msgCount() int {
	n := 0
	for _, it := range p.inflight {
		if it.kind == itMsg {
			n++
		}
	}
	for _, it := range p.ready {
		if it.kind == itMsg {
			n++
		}
	}
	return n
}

func (c *Conn) NewStream(ctx context.Context, desc *grpc.StreamDesc, method string, opts ...grpc.CallOption) (grpc.ClientStream, error) {
	n := c.net
	n.mu.Lock()
	ent, ok := n.services[method]
	copts := c.opts
	n.mu.Unlock()
	if err := ctx.Err(); err != nil {
		return nil, status.FromContextError(err).Err()
	}
	s := &Stream{net: n, Method: method, opts: copts, auto: copts.Auto}
	md, _ := metadata.FromOutgoingContext(ctx)
	md = md.Copy()
	if len(copts.InterceptMD) > 0 {
		// what a grpc.StreamClientInterceptor does: it calls the streamer with a context that carries more outgoing
		// metadata; the metadata goes on the wire and ClientStream.Context() is that context
		if md == nil {
			md = metadata.MD{}
		}
		for k, v := range copts.InterceptMD {
			md.Append(k, v...)
		}
		ctx = metadata.NewOutgoingContext(ctx, md.Copy())
	}
	s.cctx, s.ccancel = context.WithCancel(ctx)
	if c.opts.StripReqNegotiate {
		delete(md, "grpctunnel-negotiate")
	}
	base := context.Background()
	if md != nil {
		base = metadata.NewIncomingContext(base, md)
	} else {
		base = metadata.NewIncomingContext(base, metadata.MD{})
	}
	if c.opts.PeerAddr != "" {
		p := &peer.Peer{Addr: addr(c.opts.PeerAddr)}
		if c.opts.PeerSecure {
			p.AuthInfo = authInfo{}
		}
		base = peer.NewContext(base, p)
	}
	if c.opts.CtxValue != nil {
		base = context.WithValue(base, InterceptorKey{}, c.opts.CtxValue)
	}
	if len(c.opts.ServerOutMD) > 0 {
		out := metadata.MD{}
		for k, v := range c.opts.ServerOutMD {
			out[k] = append([]string(nil), v...)
		}
		base = metadata.NewOutgoingContext(base, out)
	}
	s.sctx, s.scancel = context.WithCancel(base)
	if c.opts.ServerAddr != "" {
		p := &peer.Peer{Addr: addr(c.opts.ServerAddr)}
		if c.opts.ClientSecure {
			p.AuthInfo = authInfo{}
		}
		s.cctx = peer.NewContext(s.cctx, p)
	}
	for _, o := range opts {
		if po, ok := o.(grpc.PeerCallOption); ok && c.opts.ServerAddr != "" {
			*po.PeerAddr = peer.Peer{Addr: addr(c.opts.ServerAddr)}
		}
	}
	n.mu.Lock()
	s.Idx = len(n.streams)
	n.streams = append(n.streams, s)
	c.created = append(c.created, s)
	n.mu.Unlock()

	// client context ends => local effect at once, reset travels in band
	context.AfterFunc(s.cctx, func() {
		n.mu.Lock()
		defer n.mu.Unlock()
		if s.cliErr == nil && !s.cliFinishedLocked() {
			s.cliErr = status.FromContextError(s.cctx.Err()).Err()
		}
		s.sendResetLocked()
		n.cond.Broadcast()
	})
	context.AfterFunc(s.sctx, func() {
		n.mu.Lock()
		defer n.mu.Unlock()
		n.cond.Broadcast()
	})

	if !ok {
		// unknown method: trailers-only Unimplemented
		n.mu.Lock()
		s.finishServerLocked(status.New(codes.Unimplemented, "unknown method "+method))
		n.mu.Unlock()
		return &clientStream{s}, nil
	}
	go s.runHandler(ent)
	return &clientStream{s}, nil
}

func (s *Stream) runHandler(ent svcEntry) {
	var err error
	func() {
		defer func() {
			if r := recover(); r != nil {
				s.net.mu.Lock()
				s.net.panics = append(s.net.panics, fmt.Sprintf("handler goroutine of carrier stream %d (%s): %v", s.Idx, s.Method, r))
				s.net.mu.Unlock()
				err = status.Error(codes.Internal, "panic")
			}
		}()
		err = ent.handler(ent.srv, &serverStream{s})
	}()
	n := s.net
	n.mu.Lock()
	s.HandlerErr = err
	s.HandlerDone = true
	st, _ := status.FromError(err)
	if err != nil && st.Code() == codes.OK {
		st = status.New(codes.Unknown, err.Error())
	}
	if ce := status.FromContextError(err); err != nil && (err == context.Canceled || err == context.DeadlineExceeded) {
		st = ce
	}
	s.finishServerLocked(st)
	cb := n.onHandlerDone
	n.mu.Unlock()
	if cb != nil {
		cb(s, err)
	}
}

func (s *Stream) cliFinishedLocked() bool { return s.recvTerm != nil }

func (s *Stream) handlerDone() bool {
	s.net.mu.Lock()
	defer s.net.mu.Unlock()
	return s.HandlerDone
}

// finishServerLocked: the server half is done (handler returned or a send failed fatally).
func (s *Stream) finishServerLocked(st *status.Status) {
	if s.srvDone {
		return
	}
	s.srvDone = true
	if !s.hdrSent {
		// trailers-only
		s.hdrSent = true
		s.pushLocked(S2C, item{kind: itStatus, st: st, md: s.trl})
	} else {
		s.pushLocked(S2C, item{kind: itStatus, st: st, md: s.trl})
	}
	// nobody reads c2s any more
	s.pipe[C2S].sink = true
	s.pipe[C2S].inflight = nil
	s.pipe[C2S].ready = nil
	s.scancel()
	s.net.cond.Broadcast()
}

func (s *Stream) sendResetLocked() {
	if s.cliReset {
		return
	}
	s.cliReset = true
	// client no longer reads s2c
	s.pipe[S2C].sink = true
	s.pipe[S2C].inflight = nil
	s.pipe[S2C].ready = nil
	if s.srvDone {
		return
	}
	s.pushLocked(C2S, item{kind: itReset})
}

// pushLocked appends an item to a pipe (inflight, or straight to ready in auto mode).
func (s *Stream) pushLocked(d Dir, it item) {
	p := &s.pipe[d]
	if p.sink {
		return
	}
	if s.auto {
		s.arriveLocked(d, it)
		return
	}
	p.inflight = append(p.inflight, it)
}

// arriveLocked: an item reaches the receiving endpoint's transport.
func (s *Stream) arriveLocked(d Dir, it item) {
	p := &s.pipe[d]
	if p.sink {
		return
	}
	if it.kind == itMsg && it.seq >= 0 && it.seq < len(s.net.frames) {
		s.net.frames[it.seq].Delivered = s.net.step
	}
	switch it.kind {
	case itHeader:
		s.hdr = it.md
		s.hdrValid = true
		s.hdrReady = true
	case itStatus:
		if !s.hdrReady {
			s.hdrReady = true // trailers-only
		}
		s.cliFinished = true
		p.ready = append(p.ready, it)
	case itReset:
		// RST_STREAM: the server stream's context is cancelled and unread data is dropped
		if !s.srvDone {
			s.srvErr = status.Error(codes.Canceled, "context canceled")
			p.ready = nil
			s.scancel()
		}
	default:
		p.ready = append(p.ready, it)
	}
	s.net.cond.Broadcast()
}

// Pending reports how many items are in flight in direction d.
func (s *Stream) Pending(d Dir) int {
	s.net.mu.Lock()
	defer s.net.mu.Unlock()
	return len(s.pipe[d].inflight)
}

// Deliver moves the oldest in-flight item of direction d to the receiver. Returns false if none.
func (s *Stream) Deliver(d Dir) bool {
	s.net.mu.Lock()
	defer s.net.mu.Unlock()
	return s.deliverLocked(d)
}

func (s *Stream) deliverLocked(d Dir) bool {
	p := &s.pipe[d]
	if len(p.inflight) == 0 {
		return false
	}
	it := p.inflight[0]
	p.inflight = p.inflight[1:]
	s.arriveLocked(d, it)
	return true
}

// SetAuto switches auto delivery; switching it on flushes everything in flight.
func (s *Stream) SetAuto(auto bool) {
	s.net.mu.Lock()
	defer s.net.mu.Unlock()
	s.auto = auto
	if auto {
		for d := C2S; d <= S2C; d++ {
			for s.deliverLocked(d) {
			}
		}
	}
}

// SetCapacity changes the capacity bound (0 = unbounded).
func (s *Stream) SetCapacity(c int) {
	s.net.mu.Lock()
	defer s.net.mu.Unlock()
	s.opts.Capacity = c
	s.net.cond.Broadcast()
}

// Break simulates failure of the underlying connection as observed at one or both ends.
func (s *Stream) Break(client, server bool) {
	n := s.net
	n.mu.Lock()
	defer n.mu.Unlock()
	if client {
		s.brokeClient = true
		if s.cliErr == nil && s.recvTerm == nil {
			s.cliErr = status.Error(codes.Unavailable, "connection error: injected failure")
		}
		s.pipe[S2C].sink = true
		s.pipe[S2C].inflight, s.pipe[S2C].ready = nil, nil
		s.cliFinished = true
		s.hdrReady = true
	}
	if server {
		s.brokeServer = true
		if !s.srvDone && s.srvErr == nil {
			s.srvErr = status.Error(codes.Canceled, "context canceled")
		}
		s.pipe[C2S].sink = true
		s.pipe[C2S].inflight, s.pipe[C2S].ready = nil, nil
		s.scancel()
	}
	n.cond.Broadcast()
}

// BrokenOneSide reports whether Break was applied to exactly one end.
func (s *Stream) BrokenOneSide() bool {
	s.net.mu.Lock()
	defer s.net.mu.Unlock()
	return s.brokeClient != s.brokeServer
}

// ServerContext returns the context handlers of this carrier stream see.
func (s *Stream) ServerContext() context.Context { return s.sctx }

// BlockedOnCapacity reports whether some SendMsg in direction d is currently parked on the capacity bound.
func (s *Stream) BlockedOnCapacity(d Dir) bool {
	s.net.mu.Lock()
	defer s.net.mu.Unlock()
	return s.capWaiters[d] > 0
}

func (s *Stream) tapLocked(d Dir, m any, b []byte, sendErr error) int {
	n := s.net
	rec := &FrameRec{Seq: len(n.frames), Step: n.step, Stream: s.Idx, Dir: d, Len: len(b), Delivered: -1, Received: -1}
	if sendErr != nil {
		rec.SendErr = sendErr.Error()
	}
	rec.Type, rec.F = summarizeFrame(m)
	n.frames = append(n.frames, rec)
	return rec.Seq
}

// ---- client half ----

type clientStream struct{ s *Stream }

func (c *clientStream) Context() context.Context { return c.s.cctx }

func (c *clientStream) Header() (metadata.MD, error) {
	s := c.s
	n := s.net
	n.mu.Lock()
	defer n.mu.Unlock()
	for {
		if s.hdrReady {
			if !s.hdrValid {
				// trailers-only or broken before headers
				if s.cliErr != nil {
					return nil, s.cliErr
				}
				if s.cliStatus != nil {
					return nil, s.cliStatus.Err()
				}
				// status delivered but not yet read: peek
				for _, it := range s.pipe[S2C].ready {
					if it.kind == itStatus {
						return nil, it.st.Err()
					}
				}
				return nil, nil
			}
			return s.hdr.Copy(), nil
		}
		if s.cliErr != nil {
			return nil, s.cliErr
		}
		n.cond.Wait()
	}
}

func (c *clientStream) Trailer() metadata.MD {
	c.s.net.mu.Lock()
	defer c.s.net.mu.Unlock()
	return c.s.cliTrailer.Copy()
}

func (c *clientStream) CloseSend() error {
	s := c.s
	defer s.enter(&s.cliSending, "CloseSend")()
	s.net.mu.Lock()
	defer s.net.mu.Unlock()
	if s.cliErr != nil || s.cliFinished || s.cliReset {
		return nil
	}
	s.pushLocked(C2S, item{kind: itEOF})
	return nil
}

func (c *clientStream) SendMsg(m any) error {
	s := c.s
	defer s.enter(&s.cliSending, "SendMsg")()
	err := c.sendMsg(m)
	if h := s.net.AfterSend; h != nil && err == nil {
		h(s, C2S) // the call may return late: the frame is already on its way
	}
	return err
}

func (c *clientStream) sendMsg(m any) error {
	s := c.s
	n := s.net
	b, merr := proto.Marshal(m.(proto.Message))
	n.mu.Lock()
	defer n.mu.Unlock()
	if s.cliErr != nil || s.cliFinished || s.cliReset || s.recvTerm != nil {
		s.tapLocked(C2S, m, nil, io.EOF)
		return io.EOF
	}
	if merr != nil {
		// grpc-go: a marshal error finishes the client stream (cs.finish): the
		// stream's context is cancelled and the server sees a reset.
		err := status.Errorf(codes.Internal, "grpc: error while marshaling: %v", merr)
		s.tapLocked(C2S, m, nil, err)
		s.cliErr = err
		s.sendResetLocked()
		s.ccancel()
		n.cond.Broadcast()
		return err
	}
	for s.opts.Capacity > 0 && !s.pipe[C2S].sink && s.pipe[C2S].msgCount() >= s.opts.Capacity {
		s.capWaiters[C2S]++
		n.cond.Wait()
		s.capWaiters[C2S]--
		if s.cliErr != nil || s.cliFinished || s.cliReset {
			s.tapLocked(C2S, m, nil, io.EOF)
			return io.EOF
		}
	}
	seq := s.tapLocked(C2S, m, b, nil)
	s.pushLocked(C2S, item{kind: itMsg, data: b, seq: seq})
	return nil
}

func (c *clientStream) RecvMsg(m any) error {
	s := c.s
	n := s.net
	defer s.enter(&s.cliRecving, "RecvMsg")()
	n.mu.Lock()
	defer n.mu.Unlock()
	for {
		if s.recvTerm != nil {
			return s.recvTerm
		}
		if s.cliErr != nil {
			s.recvTerm = s.cliErr
			return s.recvTerm
		}
		p := &s.pipe[S2C]
		if len(p.ready) > 0 {
			it := p.ready[0]
			p.ready = p.ready[1:]
			n.cond.Broadcast() // capacity freed
			switch it.kind {
			case itMsg:
				if it.seq >= 0 && it.seq < len(n.frames) {
					n.frames[it.seq].Received = n.step
				}
				if err := proto.Unmarshal(it.data, m.(proto.Message)); err != nil {
					s.recvTerm = status.Errorf(codes.Internal, "grpc: failed to unmarshal the received message: %v", err)
					s.sendResetLocked()
					s.ccancel()
					return s.recvTerm
				}
				return nil
			case itStatus:
				s.cliStatus = it.st
				s.cliTrailer = it.md
				if it.st.Code() == codes.OK {
					s.recvTerm = io.EOF
				} else {
					s.recvTerm = it.st.Err()
				}
				s.ccancel() // grpc-go cancels the stream context when the RPC finishes
				return s.recvTerm
			}
			continue
		}
		n.cond.Wait()
	}
}

// ---- server half ----

type serverStream struct{ s *Stream }

func (ss *serverStream) Context() context.Context { return ss.s.sctx }

func (ss *serverStream) SetHeader(md metadata.MD) error {
	s := ss.s
	s.net.mu.Lock()
	defer s.net.mu.Unlock()
	if s.hdrSent {
		return status.Error(codes.Internal, "transport: the stream is done or WriteHeader was already called")
	}
	s.hdrSet = metadata.Join(s.hdrSet, md)
	return nil
}

func (ss *serverStream) SendHeader(md metadata.MD) error {
	s := ss.s
	s.net.mu.Lock()
	defer s.net.mu.Unlock()
	if s.hdrSent || s.srvDone {
		return status.Error(codes.Internal, "transport: the stream is done or WriteHeader was already called")
	}
	s.hdrSet = metadata.Join(s.hdrSet, md)
	s.sendHeaderLocked()
	return nil
}

func (s *Stream) sendHeaderLocked() {
	s.hdrSent = true
	md := s.hdrSet.Copy()
	if md == nil {
		md = metadata.MD{}
	}
	if s.opts.StripRespNegotiate {
		delete(md, "grpctunnel-negotiate")
	}
	s.pushLocked(S2C, item{kind: itHeader, md: md})
}

func (ss *serverStream) SetTrailer(md metadata.MD) {
	s := ss.s
	s.net.mu.Lock()
	defer s.net.mu.Unlock()
	s.trl = metadata.Join(s.trl, md)
}

func (ss *serverStream) SendMsg(m any) error {
	s := ss.s
	defer s.enter(&s.srvSending, "ServerStream.SendMsg")()
	err := ss.sendMsg(m)
	if h := s.net.AfterSend; h != nil && err == nil {
		h(s, S2C)
	}
	return err
}

func (ss *serverStream) sendMsg(m any) error {
	s := ss.s
	n := s.net
	b, merr := proto.Marshal(m.(proto.Message))
	n.mu.Lock()
	defer n.mu.Unlock()
	if s.srvDone {
		err := status.Error(codes.Internal, "transport: the stream is done")
		s.tapLocked(S2C, m, nil, err)
		return err
	}
	if s.srvErr != nil {
		s.tapLocked(S2C, m, nil, s.srvErr)
		return s.srvErr
	}
	if !s.hdrSent {
		s.sendHeaderLocked()
	}
	if merr != nil {
		// grpc-go: a failed server SendMsg writes the error status, ending the stream
		err := status.Errorf(codes.Internal, "grpc: error while marshaling: %v", merr)
		s.tapLocked(S2C, m, nil, err)
		s.finishServerLocked(status.Convert(err))
		return err
	}
	for s.opts.Capacity > 0 && !s.pipe[S2C].sink && s.pipe[S2C].msgCount() >= s.opts.Capacity {
		s.capWaiters[S2C]++
		n.cond.Wait()
		s.capWaiters[S2C]--
		if s.srvDone {
			err := status.Error(codes.Internal, "transport: the stream is done")
			s.tapLocked(S2C, m, nil, err)
			return err
		}
		if s.srvErr != nil {
			s.tapLocked(S2C, m, nil, s.srvErr)
			return s.srvErr
		}
	}
	seq := s.tapLocked(S2C, m, b, nil)
	s.pushLocked(S2C, item{kind: itMsg, data: b, seq: seq})
	return nil
}

func (ss *serverStream) RecvMsg(m any) error {
	s := ss.s
	n := s.net
	defer s.enter(&s.srvRecving, "ServerStream.RecvMsg")()
	n.mu.Lock()
	defer n.mu.Unlock()
	for {
		if s.srvErr != nil {
			return s.srvErr
		}
		if s.srvDone {
			return status.Error(codes.Canceled, "context canceled")
		}
		p := &s.pipe[C2S]
		if len(p.ready) > 0 {
			it := p.ready[0]
			switch it.kind {
			case itMsg:
				p.ready = p.ready[1:]
				n.cond.Broadcast()
				if it.seq >= 0 && it.seq < len(n.frames) {
					n.frames[it.seq].Received = n.step
				}
				if err := proto.Unmarshal(it.data, m.(proto.Message)); err != nil {
					return status.Errorf(codes.Internal, "grpc: failed to unmarshal the received message: %v", err)
				}
				return nil
			case itEOF:
				// sticky: stays at the head
				return io.EOF
			}
			p.ready = p.ready[1:]
			continue
		}
		n.cond.Wait()
	}
}
