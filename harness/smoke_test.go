package harness

import (
	"encoding/json"
	"testing"
)

func TestSmoke(t *testing.T) {
	c := &Case{
		Prop: "smoke",
		Cfg:  Config{Dir: "fwd"},
		RPCs: []RPC{
			{Shape: "bidi", Req: []int{10, 20000, 0}, Resp: []int{5, 70000}, HOps: []MDOp{{Kind: "sethdr", MD: map[string][]string{"a": {"1"}}}, {Kind: "send", Idx: 0}, {Kind: "send", Idx: 1}, {Kind: "settrl", MD: map[string][]string{"t": {"x", "y"}}}}},
			{Shape: "unary", Req: []int{100}, Resp: []int{200}},
		},
		Tape: []int{3, 1, 4, 1, 5, 9, 2, 6, 5, 3, 5, 8, 9, 7, 9, 3, 2, 3, 8, 4, 6, 2, 6, 4, 3, 3, 8, 3, 2, 7, 9, 5},
	}
	tr := runInBubble(t, c)
	t.Log("\n" + tr.Excerpt(200))
	b, _ := json.Marshal(tr.Snapshots)
	t.Log(string(b))
	t.Log(tr.Deadlock, tr.Notes)
}
