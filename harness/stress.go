package harness

// stress engine: the same cases and actors as the simulation, but free-running:
// no bubble, real goroutines on all Ps, the carrier delivers at once, actors
// step themselves, armed yield points inject delays, the binary is built with
// the race detector. Oracles: no race report, no panic, no hang, and the
// schedule-independent application-level oracles.

import (
	"fmt"
	"os"
	"runtime"
	"strings"
	"sync/atomic"
	"testing"
	"time"

	"github.com/jhump/grpctunnel"
	"pgregory.net/rapid"
)

// runFree executes the case without stepping. It returns false if it did not finish within the deadline.
func (w *World) runFree(deadline time.Duration) bool {
	defer grpctunnel.VerifSetYieldHook(nil)
	w.free = true
	w.installYields()
	w.setPhase("setup")
	if !w.setupFree() {
		w.teardownFree()
		return true
	}
	w.setPhase("run")
	for i := range w.c.RPCs {
		r := &rpcState{idx: i, spec: &w.c.RPCs[i]}
		w.mu.Lock()
		w.rpcs = append(w.rpcs, r)
		w.mu.Unlock()
	}
	w.eventsDone = make([]bool, len(w.c.Events))
	for i, ev := range w.c.Events {
		w.tr.Events = append(w.tr.Events, &EventRec{Idx: i, Kind: ev.Kind, Fired: -1, Returned: -1})
	}
	for _, r := range w.rpcs {
		w.buildCallerActors(r)
	}
	// events fire once the given number of operations has completed
	var fired atomic.Int32
	for i := range w.c.Events {
		i := i
		go func() {
			ev := w.c.Events[i]
			for {
				w.mu.Lock()
				n := 0
				for _, o := range w.tr.Ops {
					if !o.Pending() {
						n++
					}
				}
				allDone := w.allActorsDoneLocked()
				w.mu.Unlock()
				if n >= ev.After || allDone {
					break
				}
				select {
				case <-w.quit:
					return
				case <-time.After(30 * time.Microsecond):
				}
			}
			w.fireFree(i)
			fired.Add(1)
		}()
	}
	ok := w.waitFree(deadline)
	w.observeTunnels() // which tunnels are (still) up now that the workload is over
	if ok {
		// every event gets its turn even if the workload finished first
		for j := 0; j < 2000 && int(fired.Load()) < len(w.c.Events); j++ {
			time.Sleep(time.Millisecond)
		}
	}
	w.setPhase("end")
	w.mu.Lock()
	for _, o := range w.tr.Ops {
		if o.End < 0 {
			o.PendingAtEnd = true
		}
	}
	w.frozen = true // what happens from here on is the harness's own teardown
	w.mu.Unlock()
	w.teardownFree()
	return ok
}

func (w *World) allActorsDoneLocked() bool {
	for _, a := range w.actors {
		if !a.done || a.busy {
			return false
		}
	}
	return len(w.actors) > 0
}

func (w *World) waitFree(deadline time.Duration) bool {
	start := time.Now()
	for time.Since(start) < deadline {
		w.mu.Lock()
		done := w.allActorsDoneLocked() || len(w.actors) == 0
		w.mu.Unlock()
		if done {
			return true
		}
		Progress.Add(1) // the sim's watchdog must not mistake a running stress case for a hang
		time.Sleep(200 * time.Microsecond)
	}
	return false
}

func (w *World) setupFree() bool {
	// same as setup(); openTunnel's settle calls are bubble-only, so wait in real time instead
	w.freeSetup = true
	return w.setup()
}

// fireFree executes an event in free-running mode (the blocking API calls simply run on this goroutine).
func (w *World) fireFree(i int) {
	ev := w.c.Events[i]
	rec := w.tr.Events[i]
	w.mu.Lock()
	if w.eventsDone[i] {
		w.mu.Unlock()
		return
	}
	w.eventsDone[i] = true
	w.step++
	rec.Fired = w.step
	var t *tunnelState
	if ev.Target >= 0 && ev.Target < len(w.tunnels) {
		t = w.tunnels[ev.Target]
	}
	var r *rpcState
	if ev.Target >= 0 && ev.Target < len(w.rpcs) {
		r = w.rpcs[ev.Target]
	}
	w.mu.Unlock()
	w.eventCall(rec, func() {
		switch ev.Kind {
		case "close_channel", "handler_close":
			if t != nil && t.ch != nil {
				t.ch.Close()
			}
		case "cancel_open":
			if t != nil {
				t.cancel()
			}
		case "break_both":
			if t != nil && t.carrier != nil {
				t.carrier.Break(true, true)
			}
		case "stop":
			if sv := w.serverAt(ev.Target); sv != nil {
				sv.rs.Stop()
			}
		case "graceful_stop":
			if sv := w.serverAt(ev.Target); sv != nil {
				rs := sv.rs
				go func() {
					// GracefulStop alone never returns on an idle tunnel (known finding F7): bound it by a later Stop
					time.Sleep(2 * time.Millisecond)
					rs.Stop()
				}()
				rs.GracefulStop()
			}
		case "initiate_shutdown":
			w.handler.InitiateShutdown()
		case "cancel_rpc":
			if r != nil {
				w.mu.Lock()
				c := r.cancel
				w.mu.Unlock()
				if c != nil {
					c()
				}
			}
		case "registry_query":
			for j := 0; j < 20; j++ {
				_ = w.handler.AllReverseTunnels()
				_ = w.handler.AsChannel().Ready()
				_ = w.handler.KeyAsChannel("k").Ready()
				runtime.Gosched()
			}
		case "open_tunnel":
			w.openTunnel(TunnelSpec{Server: len(w.allServers())}, false)
		}
	})
	w.mu.Lock()
	w.step++
	rec.Returned = w.step
	w.mu.Unlock()
}

func (w *World) teardownFree() {
	w.mu.Lock()
	ts := append([]*tunnelState(nil), w.tunnels...)
	w.mu.Unlock()
	for _, t := range ts {
		if t.ch != nil {
			t.ch.Close()
		}
	}
	for _, rs := range w.allServers() {
		rs.rs.Stop()
	}
	close(w.quit)
	w.mu.Lock()
	rs := append([]*rpcState(nil), w.rpcs...)
	w.mu.Unlock()
	for _, r := range rs {
		w.mu.Lock()
		c := r.cancel
		w.mu.Unlock()
		if c != nil {
			c()
		}
	}
	for _, t := range ts {
		if t.cancel != nil {
			t.cancel()
		}
	}
	for _, s := range w.net.Streams() {
		s.Break(true, true)
	}
	w.bufStop()
	// wait for stragglers: operations released by the teardown must have written their records before the
	// monitors read the trace (they run on another goroutine)
	for j := 0; j < 10000; j++ {
		w.mu.Lock()
		busy := false
		for _, a := range w.actors {
			if a.busy {
				busy = true
			}
		}
		w.mu.Unlock()
		if !busy {
			break
		}
		time.Sleep(500 * time.Microsecond)
	}
	w.tr.Frames = w.net.Frames()
	w.tr.Panics = append(w.tr.Panics, w.net.Panics()...)
	w.tr.Misuse = w.net.Misuse()
	w.mu.Lock()
	w.tr.Steps = w.step
	w.mu.Unlock()
}

var raceLogPrefix = func() string {
	for _, kv := range strings.Fields(os.Getenv("GORACE")) {
		if strings.HasPrefix(kv, "log_path=") {
			return strings.TrimPrefix(kv, "log_path=")
		}
	}
	return ""
}()

func raceLogSize() int64 {
	if raceLogPrefix == "" {
		return 0
	}
	var n int64
	if fi, err := os.Stat(fmt.Sprintf("%s.%d", raceLogPrefix, os.Getpid())); err == nil {
		n = fi.Size()
	}
	return n
}

func raceLogTail(from int64) string {
	b, err := os.ReadFile(fmt.Sprintf("%s.%d", raceLogPrefix, os.Getpid()))
	if err != nil || int64(len(b)) <= from {
		return ""
	}
	s := string(b[from:])
	if len(s) > 6000 {
		s = s[:6000]
	}
	return s
}

// execStress runs one case free-running and records hang / race observations in the trace.
func execStress(t *testing.T, c *Case) *Trace {
	tr := newWorldTrace()
	before := raceLogSize()
	w := &World{c: c, net: NewNet(), tr: tr, quit: make(chan struct{}), yieldOcc: map[string]int{}}
	ok := w.runFree(20 * time.Second)
	if !ok {
		buf := make([]byte, 1<<20)
		n := runtime.Stack(buf, true)
		tr.Aborted = "stress run did not finish within 20s"
		tr.Notes = append(tr.Notes, string(buf[:n]))
	}
	// hand the monitors a private copy: goroutines released by the teardown may still be writing the live records
	tr = w.copyTrace()
	// give the race detector's report a moment to be flushed
	if after := raceLogSize(); after > before {
		tail := raceLogTail(before)
		// only reports that involve the library count; a race between two harness accesses is a harness bug
		lib := raceInvolvesLibrary(tail)
		if lib {
			tr.Notes = append(tr.Notes, "RACE: "+tail)
			tr.label("race_report")
		} else {
			tr.Notes = append(tr.Notes, "HARNESS-RACE: "+tail)
			tr.label("harness_race_report")
		}
	}
	return tr
}

func monC15(c *Case, tr *Trace) []Violation {
	var vs []Violation
	add := func(class string, f string, a ...any) {
		vs = append(vs, Violation{Prop: "C15", Class: class, Details: fmt.Sprintf(f, a...)})
	}
	for _, p := range tr.Panics {
		add("panic", "%s", p)
	}
	for _, n := range tr.Notes {
		if strings.HasPrefix(n, "RACE: ") {
			add("data_race", "the race detector reported while this program ran:\n%s", n)
		}
	}
	for _, m := range tr.Misuse {
		add("carrier_stream_used_concurrently", "%s (gRPC streams allow one sender and one receiver at a time; the library must serialise its own use of the stream it was given)", m)
	}
	if tr.Aborted != "" {
		// a hang under real parallelism: re-execute the same case in the simulation, where a deadlock is decidable
		add("hang_unconfirmed", "%s", tr.Aborted)
	}
	// schedule-independent application-level oracle: message integrity
	for _, v := range monC01(c, tr) {
		add("message_integrity_under_concurrency", "%s", v.Details)
	}
	for _, o := range tr.Ops {
		// (an operation that was merely still running when the workload was declared over, and returned
		// during the teardown, is marked PendingAtEnd but has its End: that is not a hang)
		if o.End < 0 && tr.Aborted == "" {
			add("operation_never_returned", "%s %s#%d never returned although every tunnel was closed", o.Actor, o.Kind, o.Idx)
		}
	}
	return vs
}

// genStress: concurrent programs: many starters, sender+receiver on the same RPC, readers of header/trailer
// and call-option targets right after their completion signal, teardown calls and registry queries mid-run,
// cancellations racing with completion, delay injection at the yield points.
func genStress(t *rapid.T) *Case {
	c := &Case{Prop: "stress", Free: true}
	c.Cfg = Config{Dir: rapid.SampledFrom([]string{"fwd", "fwd", "rev", "rev", "nested"}).Draw(t, "dir"),
		ClientFC: rapid.SampledFrom([]string{"on", "on", "on", "off"}).Draw(t, "client_fc"), ServerFC: rapid.SampledFrom([]string{"on", "on", "on", "off"}).Draw(t, "server_fc")}
	if c.Cfg.Dir == "rev" {
		for i := 0; i < rapid.IntRange(1, 3).Draw(t, "ntunnels"); i++ {
			c.Cfg.Tunnels = append(c.Cfg.Tunnels, TunnelSpec{Server: i})
		}
	}
	n := rapid.IntRange(2, 8).Draw(t, "nrpcs")
	for i := 0; i < n; i++ {
		r := genBystander(t, fmt.Sprintf("r%d", i))
		r.Role = "stress"
		r.HWaitRecv = rapid.Bool().Draw(t, fmt.Sprintf("r%d.waitrecv", i))
		r.HdrOpt, r.TrlOpt = rapid.Bool().Draw(t, fmt.Sprintf("r%d.hdropt", i)), rapid.Bool().Draw(t, fmt.Sprintf("r%d.trlopt", i))
		r.CallHeader = rapid.SampledFrom([]int{0, 1, -1}).Draw(t, fmt.Sprintf("r%d.callheader", i))
		hdr := MDOp{Kind: "sethdr", MD: map[string][]string{"h": {"1"}}}
		if rapid.IntRange(0, 3).Draw(t, fmt.Sprintf("r%d.bighdr", i)) == 0 {
			// a header frame that takes a while to convert, sent at once, with the caller's cancel aimed at its arrival
			hdr = MDOp{Kind: "sendhdr", MD: map[string][]string{"h": {"1"}}, BigKeys: rapid.SampledFrom([]int{300, 3000}).Draw(t, fmt.Sprintf("r%d.bigkeys", i)),
				CancelAfterUs: rapid.IntRange(1, 800).Draw(t, fmt.Sprintf("r%d.cancelus", i))}
		}
		r.HOps = append([]MDOp{hdr}, r.HOps...)
		r.HOps = append(r.HOps, MDOp{Kind: "settrl", MD: map[string][]string{"t": {"1", "2"}}})
		if rapid.IntRange(0, 5).Draw(t, fmt.Sprintf("r%d.err", i)) == 0 {
			r.Code, r.Msg = rapid.IntRange(1, 16).Draw(t, fmt.Sprintf("r%d.code", i)), "stress"
		}
		if rapid.IntRange(0, 3).Draw(t, fmt.Sprintf("r%d.creds", i)) == 0 {
			// per-RPC credentials whose callback takes a while: the start of the call overlaps whatever else is going on
			r.Creds = &Creds{MD: map[string]string{"tok": "v"}, SlowUs: rapid.IntRange(20, 600).Draw(t, fmt.Sprintf("r%d.credsus", i))}
		}
		c.RPCs = append(c.RPCs, r)
	}
	ne := rapid.IntRange(0, 4).Draw(t, "nevents")
	for i := 0; i < ne; i++ {
		kinds := []string{"cancel_rpc", "cancel_rpc", "registry_query", "close_channel", "break_both", "cancel_open", "initiate_shutdown"}
		if c.Cfg.Dir == "rev" {
			kinds = append(kinds, "stop", "graceful_stop", "handler_close", "open_tunnel", "registry_query")
		}
		k := rapid.SampledFrom(kinds).Draw(t, fmt.Sprintf("ev%d", i))
		ev := Event{Kind: k, After: rapid.IntRange(0, 40).Draw(t, fmt.Sprintf("ev%d.after", i))}
		if k == "cancel_rpc" {
			ev.Target = rapid.IntRange(0, n-1).Draw(t, fmt.Sprintf("ev%d.rpc", i))
		}
		c.Events = append(c.Events, ev)
	}
	points := []string{"client.finish.beforeTrailers", "client.newStream.afterAlloc", "handler.reverse.betweenAdds", "handler.unregister.between", "server.finish.afterCancel",
		"receiver.dequeue.beforeCredit", "sender.afterLoad", "sender.beforeWait", "sender.beforeCAS", "sender.update.afterAdd", "client.cancel.afterFinish",
		"server.halfClose.beforeReceiverClose", "client.close.afterTearDown", "receiver.closure.afterWake", "client.invoke.afterSend"}
	ny := rapid.IntRange(0, 4).Draw(t, "nyields")
	for i := 0; i < ny; i++ {
		c.Yields = append(c.Yields, Yield{Point: rapid.SampledFrom(points).Draw(t, fmt.Sprintf("y%d", i)), Nth: rapid.IntRange(0, 10).Draw(t, fmt.Sprintf("y%d.nth", i)),
			Repeat: rapid.IntRange(1, 50).Draw(t, fmt.Sprintf("y%d.repeat", i)), Kind: rapid.SampledFrom([]string{"gosched", "sleep"}).Draw(t, fmt.Sprintf("y%d.kind", i))})
	}
	return c
}

func ntStress(c *Case, tr *Trace) bool {
	return len(c.RPCs) >= 2 || len(c.Events) > 0
}

// raceInvolvesLibrary: does at least one of the conflicting accesses of some report happen in package grpctunnel
// (the first non-runtime frame of an access stack)? Library frames further down (a callback invoked by the
// library) do not count.
func raceInvolvesLibrary(log string) bool {
	for _, rep := range strings.Split(log, "WARNING: DATA RACE") {
		lines := strings.Split(rep, "\n")
		for i, l := range lines {
			t := strings.TrimSpace(l)
			isAccess := strings.HasPrefix(t, "Read at") || strings.HasPrefix(t, "Write at") || strings.HasPrefix(t, "Previous read at") || strings.HasPrefix(t, "Previous write at") ||
				strings.HasPrefix(t, "Atomic") || strings.HasPrefix(t, "Previous atomic")
			if !isAccess {
				continue
			}
			for j := i + 1; j < len(lines); j++ {
				f := strings.TrimSpace(lines[j])
				if f == "" {
					break
				}
				if strings.HasPrefix(f, "/") || strings.HasPrefix(f, "runtime.") || strings.HasPrefix(f, "sync.") || strings.HasPrefix(f, "sync/atomic.") || strings.HasPrefix(f, "internal/") {
					continue // file:line lines and runtime frames
				}
				if strings.HasPrefix(f, "github.com/jhump/grpctunnel.") {
					return true
				}
				if strings.HasPrefix(f, "google.golang.org/grpc.") {
					// an access inside grpc-go's own stream code (real-transport runs): it is the library's doing if the
					// library is what called into the stream there - grpc-go forbids concurrent SendMsg/CloseSend on one
					// stream, and the harness never touches a carrier stream itself
					for k := j + 1; k < len(lines); k++ {
						g := strings.TrimSpace(lines[k])
						if g == "" {
							break
						}
						if strings.HasPrefix(g, "github.com/jhump/grpctunnel.") {
							return true
						}
					}
				}
				break
			}
		}
	}
	return false
}

// genStressGRPC: the stress programs over real grpc-go (in-process pipe) instead of the harness's carrier: no wire tap and
// no carrier faults, but grpc-go's own synchronisation - far less than the harness carrier's one mutex - decides which
// accesses the race detector can see, and grpc-go's stream code is itself instrumented.
func genStressGRPC(t *rapid.T) *Case {
	c := genStress(t)
	c.Prop = "stress_grpc"
	c.Cfg.Carrier = "bufconn"
	return c
}

// genStressCancel: bystanders plus RPCs whose context is already cancelled, or is cancelled very early, run free on all Ps.
func genStressCancel(t *rapid.T) *Case {
	c := &Case{Prop: "stress_cancel", Free: true}
	c.Cfg = Config{Dir: rapid.SampledFrom([]string{"fwd", "rev"}).Draw(t, "dir"), ClientFC: "on", ServerFC: "on"}
	nb := rapid.IntRange(1, 3).Draw(t, "nbystanders")
	for i := 0; i < nb; i++ {
		r := genBystander(t, fmt.Sprintf("b%d", i))
		c.RPCs = append(c.RPCs, r)
	}
	nv := rapid.IntRange(2, 8).Draw(t, "nvictims")
	for i := 0; i < nv; i++ {
		r := genBystander(t, fmt.Sprintf("v%d", i))
		r.Role = "victim"
		r.HWaitRecv = false
		switch rapid.IntRange(0, 3).Draw(t, fmt.Sprintf("v%d.how", i)) {
		case 0, 1:
			r.PreCancel = true
		case 2:
			c.Events = append(c.Events, Event{Kind: "cancel_rpc", Target: len(c.RPCs), After: rapid.IntRange(0, 6).Draw(t, fmt.Sprintf("v%d.after", i))})
		default:
			// the cancellation is aimed at the arrival of the RPC's own close frame, with responses still unread at the caller's end
			r.CancelAtReturnUs = rapid.IntRange(1, 300).Draw(t, fmt.Sprintf("v%d.atreturn", i))
			if respStreams(r.Shape) && len(r.Resp) == 0 {
				r.Resp = []int{5, 300}
				r.HOps = []MDOp{{Kind: "send", Idx: 0}, {Kind: "send", Idx: 1}}
			}
			r.StallRecv = rapid.Bool().Draw(t, fmt.Sprintf("v%d.stall", i))
		}
		if rapid.IntRange(0, 2).Draw(t, fmt.Sprintf("v%d.bigmd", i)) == 0 {
			// large request metadata stretches the window between id allocation and the first send
			r.ReqMD = map[string][]string{}
			for k := 0; k < 150; k++ {
				r.ReqMD[fmt.Sprintf("k%04d", k)] = []string{"0123456789012345678901234567890123456789"}
			}
		}
		c.RPCs = append(c.RPCs, r)
	}
	return c
}

// monStressSurvival: cancelling RPCs never harms the others nor the tunnel; wire order of stream openings (schedule independent).
func monStressSurvival(prop string) Monitor {
	return func(c *Case, tr *Trace) []Violation {
		var vs []Violation
		add := func(class, f string, a ...any) {
			vs = append(vs, Violation{Prop: prop, Class: class, Details: fmt.Sprintf(f, a...)})
		}
		if tr.Aborted != "" {
			return nil // inconclusive, reported by the C15 check
		}
		for _, p := range tr.Panics {
			add("panic", "%s", p)
		}
		if prop == "C07" || prop == "C03" {
			for i := range c.RPCs {
				if c.RPCs[i].Role == "bystander" {
					if msg := bystanderComplete(c, tr, i, 1<<30); msg != "" {
						add("bystander_harmed", "under real parallelism: bystander rpc %d (%s) did not complete normally: %s", i, c.RPCs[i].Shape, msg)
					}
				}
			}
			for _, t := range tr.Tunnels {
				if t.DoneStep >= 0 || t.ServeReturned >= 0 {
					add("tunnel_killed", "under real parallelism: tunnel %d ended (err %q, serve err %q) although only RPC contexts were cancelled", t.Idx, t.ChanErr, t.ServeErr)
				}
			}
		}
		if prop == "C07" {
			// exactly one legal outcome for a cancelled RPC: whoever is told it ended normally has all of its data
			for _, v := range monC01(c, tr) {
				add("cancelled_rpc_mixed_outcome", "under real parallelism: %s", v.Details)
			}
		}
		if prop == "C08" {
			for _, v := range monC08(c, tr) {
				vs = append(vs, v)
			}
		}
		return vs
	}
}

// copyTrace deep-copies the trace under the locks that order all writes to it. Operations that are still in progress
// are copied as pending with their identity fields only (their result fields may be written concurrently).
func (w *World) copyTrace() *Trace {
	w.mu.Lock()
	src := w.tr
	out := &Trace{Steps: src.Steps, TapeUsed: src.TapeUsed, Aborted: src.Aborted, Deadlock: src.Deadlock, PhaseStart: map[string]int{}, Labels: map[string]int{}}
	for k, v := range src.PhaseStart {
		out.PhaseStart[k] = v
	}
	for k, v := range src.Labels {
		out.Labels[k] = v
	}
	out.Notes = append(out.Notes, src.Notes...)
	out.Misuse = append(out.Misuse, src.Misuse...)
	out.Panics = append(out.Panics, src.Panics...)
	out.Yields = append(out.Yields, src.Yields...)
	for _, o := range src.Ops {
		if o.End >= 0 {
			c := *o
			out.Ops = append(out.Ops, &c)
		} else {
			out.Ops = append(out.Ops, &OpRec{Seq: o.Seq, Actor: o.Actor, RPC: o.RPC, Side: o.Side, Kind: o.Kind, Idx: o.Idx, Start: o.Start, End: -1, Code: CodeNil, PendingAtEnd: true})
		}
	}
	for _, inv := range src.Invocations {
		c := *inv
		out.Invocations = append(out.Invocations, &c)
	}
	for _, e := range src.Events {
		c := *e
		out.Events = append(out.Events, &c)
	}
	for _, t := range src.Tunnels {
		c := *t
		c.Callbacks = append([]string(nil), t.Callbacks...)
		out.Tunnels = append(out.Tunnels, &c)
	}
	for _, sn := range src.Snapshots {
		c := *sn
		out.Snapshots = append(out.Snapshots, &c)
	}
	w.mu.Unlock()
	w.net.mu.Lock()
	for _, f := range w.net.frames {
		c := *f
		out.Frames = append(out.Frames, &c)
	}
	w.net.mu.Unlock()
	return out
}

// monCarrierUse: the simulation's share of C15 - with a bounded carrier a send can be parked inside the carrier's SendMsg
// while a teardown call arrives; the library must not enter the same stream half a second time.
func monCarrierUse(c *Case, tr *Trace) []Violation {
	var vs []Violation
	for _, p := range tr.Panics {
		vs = append(vs, Violation{Prop: "C15", Class: "panic", Details: p})
	}
	for _, m := range tr.Misuse {
		vs = append(vs, Violation{Prop: "C15", Class: "carrier_stream_used_concurrently", Details: m + " (gRPC streams allow one sender and one receiver at a time; the library must serialise its own use of the stream it was given)"})
	}
	return vs
}

func ntCarrierUse(c *Case, tr *Trace) bool {
	// a teardown or cancellation event fired while the carrier was bounded
	if c.Cfg.Cap == 0 {
		return false
	}
	for _, e := range tr.Events {
		if e.Fired >= 0 {
			return true
		}
	}
	return false
}
