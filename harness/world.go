package harness

import (
	"context"
	"errors"
	"fmt"
	"io"
	"net"
	"os"
	"runtime"
	"runtime/metrics"
	"sort"
	"strconv"
	"strings"
	"sync"
	"sync/atomic"
	"testing/synctest"
	"time"

	"github.com/jhump/grpctunnel"
	"github.com/jhump/grpctunnel/tunnelpb"
	"google.golang.org/grpc"
	"google.golang.org/grpc/codes"
	"google.golang.org/grpc/credentials/insecure"
	"google.golang.org/grpc/metadata"
	"google.golang.org/grpc/peer"
	"google.golang.org/grpc/status"
	"google.golang.org/grpc/test/bufconn"
	"google.golang.org/protobuf/proto"
	"google.golang.org/protobuf/types/known/emptypb"
	"google.golang.org/protobuf/types/known/wrapperspb"
)

const tagKey = "x-verif-rpc"

// World executes one Case.
type World struct {
	c   *Case
	net *Net
	tr  *Trace

	mu      sync.Mutex
	actors  []*Actor
	rpcs    []*rpcState
	tunnels []*tunnelState
	servers []*revServer
	handler *grpctunnel.TunnelServiceHandler
	hopts   grpctunnel.TunnelServiceHandlerOptions

	step    int
	phase   string
	quit    chan struct{}
	tapePos int
	free    bool

	yieldOcc map[string]int
	sleepers atomic.Int32
	sleepOK  bool

	revChans   []revChan // handler-side channels in callback order
	eventsDone []bool
	untagged   []*rpcState
	raw          *rawPeer
	serverSeqBase int // tunnel servers registered before this world started are not ours
	frozen       bool // the final snapshot has been taken; later completions are the harness's teardown
	freeSetup    bool
	parked       []*parkedYield
	buf          *bufNet
	soft         []chan struct{} // goroutines held at sleep-type yields, oldest first
	rootGID      int64
	holdParks    bool // parked goroutines are released only by explicit "unpark" operations
	yieldFn      func(string)
	released     bool
	capLifted    bool
	mutexBlocked int
	timers       []time.Time
	stacksAtHang string
}

type parkedYield struct {
	point string
	ch    chan struct{}
}

type revChan struct {
	ch     grpctunnel.TunnelChannel
	tunnel int
	closed bool
}

type revServer struct {
	idx  int
	rs   *grpctunnel.ReverseTunnelServer
	conn *Conn // the connection its stub uses (every tunnel of this server is a carrier stream on it)
}

type tunnelState struct {
	idx     int
	spec    TunnelSpec
	rec     *TunnelRec
	conn    *Conn
	carrier *Stream
	ch      grpctunnel.TunnelChannel // RPC-client end
	openCtx context.Context
	cancel  context.CancelFunc
	expireAt time.Time
	server  *revServer
	inner   bool

	openCbEnd bool // the OnReverseTunnelOpen callback returned
	closeTrig bool // registry histories: a close of this tunnel has been started
}

type rpcState struct {
	idx  int
	spec *RPC

	reuseCli, reuseSrv *wrapperspb.BytesValue // RPC.ReuseMsg: the one message object each side receives into
	hMDErr             error                  // the last error a header / trailer call of the handler returned

	ctx    context.Context
	cancel context.CancelFunc
	stream grpc.ClientStream

	started  bool
	startErr error
	cliTerm  bool // caller saw the terminal result
	cliRecvN int
	cliSendFailed bool

	hdrTarget  metadata.MD
	trlTarget  metadata.MD
	peerTarget peer.Peer
	hdrTarget2, trlTarget2 metadata.MD
	peerTarget2            peer.Peer
	chanTarget grpctunnel.TunnelChannel
	chanTarget2 grpctunnel.TunnelChannel

	inv     *Invocation
	hctx    context.Context
	hstream grpc.ServerStream
	hReturned bool
	hRecvN  int
	hRecvTerm bool
	hRecvActor *Actor
	pickedChan grpctunnel.TunnelChannel
}

type opSpec struct {
	kind string
	idx  int
	run  func(rec *OpRec)
}

type Actor struct {
	id      int
	name    string
	rpc     int
	side    string
	next    func() *opSpec // called with w.mu held; nil = finished
	enabled func() bool    // called with w.mu held
	cmd     chan *opSpec
	busy    bool
	cur     *OpRec
	stalled bool
	done    bool
	group   int
	inline  bool // the goroutine is not ours (handler goroutine)
	fuse    bool // runs its operations back to back (RPC.Fuse)
	ranOne  bool
}

// Instance is the service implementation registered for the test service.
type Instance struct {
	w   *World
	idx int
}

func msgOf(b []byte) *wrapperspb.BytesValue { return &wrapperspb.BytesValue{Value: b} }

func codeOf(err error) int {
	switch {
	case err == nil:
		return CodeNil
	case err == io.EOF:
		return CodeEOF
	}
	if st, ok := status.FromError(err); ok {
		return int(st.Code())
	}
	if errors.Is(err, context.Canceled) {
		return int(codes.Canceled)
	}
	if errors.Is(err, context.DeadlineExceeded) {
		return int(codes.DeadlineExceeded)
	}
	return int(codes.Unknown)
}

func setErr(rec *OpRec, err error) {
	rec.Code = codeOf(err)
	if err != nil {
		rec.Err = err.Error()
		if len(rec.Err) > 200 {
			rec.Err = rec.Err[:200]
		}
		if st, ok := status.FromError(err); ok {
			rec.Msg = st.Message()
			for _, d := range st.Proto().GetDetails() {
				rec.Details = append(rec.Details, d.GetTypeUrl()+"|"+string(d.GetValue()))
			}
			rec.NDetails = len(rec.Details)
		}
	}
}

func cloneMD(md metadata.MD) map[string][]string {
	if md == nil {
		return nil
	}
	out := make(map[string][]string, len(md))
	for k, v := range md {
		out[k] = append([]string{}, v...)
	}
	return out
}

// ---------------------------------------------------------------------------

// RunCase executes c inside a synctest bubble (entered by the caller) and
// returns the trace. It must be called from the root goroutine of a bubble.
func RunCase(c *Case) *Trace {
	tr := newWorldTrace()
	runCaseInto(c, tr)
	return tr
}

func newWorldTrace() *Trace { return &Trace{PhaseStart: map[string]int{}} }

func runCaseInto(c *Case, tr *Trace) {
	w := &World{c: c, net: NewNet(), tr: tr, quit: make(chan struct{}), yieldOcc: map[string]int{}}
	before := heapAllocBytes()
	w.run()
	tr.AllocBytes = heapAllocBytes() - before
}

var allocSample = []metrics.Sample{{Name: "/gc/heap/allocs:bytes"}}

// heapAllocBytes: cumulative bytes allocated on the heap by this process.
func heapAllocBytes() uint64 {
	metrics.Read(allocSample)
	return allocSample[0].Value.Uint64()
}

func (w *World) run() {
	defer func() {
		grpctunnel.VerifSetYieldHook(nil)
	}()
	for _, si := range grpctunnel.VerifServers() {
		if si.Seq > w.serverSeqBase {
			w.serverSeqBase = si.Seq
		}
	}
	w.rootGID = curGID()
	w.installYields()
	for _, y := range w.c.Yields {
		if y.Point == "carrier.send.afterPush" {
			// the carrier's SendMsg may return late - after the peer has seen the frame and even answered it
			w.net.AfterSend = func(*Stream, Dir) { w.cbYield("carrier.send.afterPush") }
		}
	}
	w.setPhase("setup")
	if !w.setup() {
		w.finish()
		return
	}
	w.settle()
	w.snapshot("established")
	w.setPhase("run")
	if w.c.Reg != nil {
		w.eventsDone = make([]bool, len(w.c.Events))
		w.runRegistry()
		w.snapshot("drain2")
		w.setPhase("end")
		w.endTunnels()
		w.drain()
		w.snapshot("ended")
		w.setPhase("final")
		w.advance(time.Hour)
		w.drain()
		w.finish()
		return
	}
	switch {
	case w.c.Raw != nil && w.c.Raw.Role == "client":
		w.buildRawClientActors()
		w.eventsDone = make([]bool, len(w.c.Events))
		for i, ev := range w.c.Events {
			w.tr.Events = append(w.tr.Events, &EventRec{Idx: i, Kind: ev.Kind, Fired: -1, Returned: -1})
		}
		w.holdCarriers()
	case w.c.Raw != nil && w.c.Raw.Role == "server":
		w.buildRawServerActors()
	default:
		w.buildActors()
	}
	w.runTape()
	w.setPhase("drain1")
	w.drain()
	w.snapshot("drain1")
	w.setPhase("drain2")
	w.releaseStalled()
	w.drain()
	w.snapshot("drain2")
	if w.c.Raw == nil && w.c.Reg == nil {
		w.setPhase("probe")
		w.probe()
	}
	w.setPhase("end")
	w.liftCapacity()
	if w.c.Raw != nil {
		w.rawHangUp()
		w.snapshot("hungup")
	}
	w.endTunnels()
	w.drain()
	w.snapshot("ended")
	w.setPhase("final")
	w.advance(time.Hour)
	w.drain()
	w.finish()
}

func (w *World) setPhase(p string) {
	w.mu.Lock()
	w.phase = p
	w.tr.PhaseStart[p] = w.step
	w.mu.Unlock()
}

// settle waits for quiescence, letting armed sleep-type yields run out.
//
// With an unbounded carrier every blocked goroutine is durably blocked and
// synctest.Wait decides quiescence. With a bounded carrier a SendMsg parked on
// the capacity bound holds the library's send mutex, other senders then wait
// on that mutex, and a mutex wait is not "durable": synctest.Wait would never
// return. There quiescence is decided by polling goroutine states instead
// (every bubble goroutine durably blocked or waiting for a mutex).
func (w *World) settle() {
	if w.free {
		// free-running: there is no quiescence to wait for; give started goroutines a moment
		time.Sleep(300 * time.Microsecond)
		w.observeTunnels()
		return
	}
	for i := 0; ; i++ {
		if w.polling() {
			w.pollQuiescent()
		} else {
			synctest.Wait()
		}
		if !w.releaseSoftSleeper() || i > 1000 {
			break
		}
	}
	Progress.Add(1)
	w.observeTunnels()
}

// releaseSoftSleeper lets the longest-waiting sleep-type yield continue.
func (w *World) releaseSoftSleeper() bool {
	w.mu.Lock()
	defer w.mu.Unlock()
	if len(w.soft) == 0 {
		return false
	}
	close(w.soft[0])
	w.soft = w.soft[1:]
	return true
}

// curGID returns the calling goroutine's id.
func curGID() int64 {
	var buf [64]byte
	n := runtime.Stack(buf[:], false)
	// "goroutine 123 ["
	var id int64
	for _, c := range buf[len("goroutine "):n] {
		if c < '0' || c > '9' {
			break
		}
		id = id*10 + int64(c-'0')
	}
	return id
}

func (w *World) polling() bool {
	if forcePolling && runtime.GOMAXPROCS(0) == 1 {
		return true
	}
	return (w.c.Cfg.Cap > 0 && !w.capLifted) || w.c.Cfg.Dir == "nested" || w.c.Cfg.Dir == "nestedrev"
}

var stackBuf = make([]byte, 1<<20)

// verifyQuiesce (VERIF_VERIFY_QUIESCE=1): cross-check every run-queue based quiescence verdict against a full scan of
// goroutine states; QuiesceMismatch counts disagreements (development aid).
var verifyQuiesce = os.Getenv("VERIF_VERIFY_QUIESCE") != ""
var QuiesceMismatch atomic.Int64

var runnableSample = []metrics.Sample{{Name: "/sched/goroutines/runnable:goroutines"}}

// runnableGoroutines reports how many goroutines are ready to run but not
// running. With GOMAXPROCS=1 and the caller running this is exact.
func runnableGoroutines() uint64 {
	metrics.Read(runnableSample)
	return runnableSample[0].Value.Uint64()
}

// pollQuiescent yields until no other goroutine can run. With one P the
// scheduler's run-queue length is exact while we are running, so this needs
// no stack dump; with more Ps it falls back to scanning goroutine states.
func (w *World) pollQuiescent() {
	if runtime.GOMAXPROCS(0) == 1 {
		for iter := 0; iter < 2000000; iter++ {
			runtime.Gosched()
			if runnableGoroutines() == 0 {
				if verifyQuiesce {
					if quiet, _ := w.scanNow(); !quiet {
						QuiesceMismatch.Add(1)
						continue
					}
				}
				return
			}
		}
		w.tr.Aborted = "pollQuiescent did not converge"
		return
	}
	for iter := 0; iter < 200000; iter++ {
		runtime.Gosched()
		if quiet, _ := w.scanNow(); quiet {
			return
		}
	}
	w.tr.Aborted = "pollQuiescent did not converge"
}

// scanNow dumps all stacks and reports whether the bubble is quiescent and how
// many goroutines wait on a mutex.
func (w *World) scanNow() (bool, int) {
	n := runtime.Stack(stackBuf, true)
	for n == len(stackBuf) {
		stackBuf = make([]byte, 2*len(stackBuf))
		n = runtime.Stack(stackBuf, true)
	}
	quiet, mb := scanStates(stackBuf[:n])
	w.mutexBlocked = mb
	return quiet, mb
}

// scanStates reads the header lines of a full stack dump: quiet is true when
// every bubble goroutine other than the caller is durably blocked or waiting
// for a mutex.
func scanStates(b []byte) (quiet bool, mutexBlocked int) {
	first := true
	quiet = true
	for len(b) > 0 {
		// header line
		nl := 0
		for nl < len(b) && b[nl] != '\n' {
			nl++
		}
		line := string(b[:nl])
		if strings.HasPrefix(line, "goroutine ") {
			if first {
				first = false // the calling goroutine
			} else if strings.Contains(line, "synctest bubble") {
				switch {
				case strings.Contains(line, "(durable)"):
				case strings.Contains(line, "sync.Mutex.Lock"), strings.Contains(line, "sync.RWMutex"):
					mutexBlocked++
				default:
					quiet = false
				}
			}
		}
		// skip to the next blank line
		i := nl
		for i+1 < len(b) && !(b[i] == '\n' && b[i+1] == '\n') {
			i++
		}
		if i+2 > len(b) {
			break
		}
		b = b[i+2:]
	}
	return quiet, mutexBlocked
}

// liftCapacity removes the capacity bound for the rest of the run (needed
// before virtual time can advance while goroutines wait on mutexes).
func (w *World) liftCapacity() {
	if w.c.Cfg.Cap == 0 || w.capLifted {
		return
	}
	for _, s := range w.net.Streams() {
		s.SetCapacity(0)
	}
	w.pollQuiescent()
	w.capLifted = true
	w.tr.label("cap_lifted")
	if !w.polling() {
		synctest.Wait()
	}
}

func (w *World) nextStep() int {
	w.mu.Lock()
	w.step++
	s := w.step
	w.mu.Unlock()
	w.net.SetStep(s)
	return s
}

func (w *World) curStep() int {
	w.mu.Lock()
	defer w.mu.Unlock()
	return w.step
}

func (w *World) advance(d time.Duration) {
	w.nextStep()
	w.sleep(d)
	w.settle()
}

// sleep advances virtual time by d. The fake clock only moves while every
// goroutine of the bubble is durably blocked, and a goroutine waiting for a
// mutex is not: if a timer fired during one long sleep and its goroutine then
// waited for a mutex held by a parked sender, the clock (and the root with it)
// would be stuck. So (1) bounded carriers are unbounded first and nested
// tunnels have their outer frames delivered, which releases parked senders
// that hold the send mutex, and (2) the root never sleeps past a timer it
// knows of: it wakes at every known deadline, settles, and re-checks.
func (w *World) sleep(d time.Duration) {
	target := time.Now().Add(d)
	for time.Now().Before(target) {
		// goroutines held at sleep-type yields go first: their 1 ns timers would otherwise fire inside the sleep below, and one
		// of them may then wait for a mutex that a parked goroutine holds - which stops the bubble's clock for good
		for i := 0; i < 1000 && w.releaseSoftSleeper(); i++ {
			if w.polling() {
				w.pollQuiescent()
			} else {
				synctest.Wait()
			}
		}
		if w.polling() {
			w.liftCapacity()
			w.pollQuiescent()
			if w.c.Cfg.Dir == "nested" || w.c.Cfg.Dir == "nestedrev" {
				w.drainDeliveries()
			}
			if _, mb := w.scanNow(); mb > 0 {
				w.tr.Notes = append(w.tr.Notes, "virtual time not advanced further: goroutines waiting on mutexes")
				w.tr.label("advance_skipped")
				return
			}
		}
		next := target
		now := time.Now()
		w.mu.Lock()
		for _, t := range w.timers {
			if t.After(now) && t.Before(next) {
				next = t
			}
		}
		w.mu.Unlock()
		time.Sleep(next.Sub(now))
		if w.polling() {
			w.pollQuiescent()
		} else {
			synctest.Wait()
		}
	}
}

func (w *World) addTimer(t time.Time) {
	w.mu.Lock()
	w.timers = append(w.timers, t)
	w.mu.Unlock()
}

// ---------------------------------------------------------------------------
// yields

var sleepSafe = map[string]bool{
	"client.finish.beforeTrailers":         true,
	"handler.reverse.betweenAdds":          true,
	"handler.unregister.between":           true,
	"server.finish.afterCancel":            true,
	"receiver.dequeue.beforeCredit":        true,
	"client.cancel.afterFinish":            true,
	"server.halfClose.beforeReceiverClose": true,
	"client.close.afterTearDown":           true,
	"receiver.closure.afterWake":           true,
}

func (w *World) installYields() {
	if len(w.c.Yields) == 0 {
		grpctunnel.VerifSetYieldHook(nil)
		return
	}
	armed := map[string][]Yield{}
	parkArmed := false // a parked goroutine may hold a mutex others wait for; the fake clock cannot advance then, so no sleep-type yields
	for _, y := range w.c.Yields {
		armed[y.Point] = append(armed[y.Point], y)
		if y.Kind == "park" {
			parkArmed = true
		}
	}
	w.yieldFn = func(point string) {
		ys := armed[point]
		if ys == nil {
			return
		}
		w.mu.Lock()
		if w.frozen {
			w.mu.Unlock()
			return // the run is over; the trace is being read
		}
		occ := w.yieldOcc[point]
		w.yieldOcc[point] = occ + 1
		var hit *Yield
		for i := range ys {
			rep := ys[i].Repeat
			if rep <= 0 {
				rep = 1
			}
			if occ >= ys[i].Nth && occ < ys[i].Nth+rep {
				hit = &ys[i]
				break
			}
		}
		if hit != nil {
			w.tr.Yields = append(w.tr.Yields, YieldRec{Point: point, Occ: occ, Step: w.step})
		}
		free := w.free
		if hit != nil && hit.Kind == "park" && (w.phase == "setup" || w.phase == "") {
			hit = nil // nobody schedules during set-up: a parked goroutine would never be released
		}
		w.mu.Unlock()
		if hit == nil {
			return
		}
		if free {
			// stress engine: real delay
			if hit.Kind == "sleep" {
				time.Sleep(time.Duration(50+occ%150) * time.Microsecond)
			} else {
				runtime.Gosched()
			}
			return
		}
		if hit.Kind == "park" {
			// hold the calling goroutine right here until the schedule releases it ("unpark" action)
			ch := make(chan struct{})
			w.mu.Lock()
			w.parked = append(w.parked, &parkedYield{point: point, ch: ch})
			w.mu.Unlock()
			select {
			case <-ch:
			case <-w.quit:
			}
			return
		}
		if hit.Kind == "sleep" && sleepSafe[point] && curGID() != w.rootGID {
			// delay this goroutine until everything else is quiescent: settle releases
			// soft sleepers one at a time. (Not time.Sleep: the bubble's clock cannot move
			// while any goroutine waits for a mutex the sleeper may hold.)
			ch := make(chan struct{})
			w.mu.Lock()
			w.soft = append(w.soft, ch)
			w.mu.Unlock()
			w.sleepers.Add(1)
			// the timer covers the root being blocked inside a library call (set-up,
			// synchronous events) rather than in settle
			tm := time.NewTimer(time.Nanosecond)
			select {
			case <-ch:
			case <-tm.C:
			case <-w.quit:
			}
			tm.Stop()
			w.sleepers.Add(-1)
			return
		}
		runtime.Gosched()
	}
	_ = parkArmed
	grpctunnel.VerifSetYieldHook(w.yieldFn)
}

// cbYield is a yield point inside one of the harness's own (application-side)
// callbacks: application code may take arbitrarily long there.
func (w *World) cbYield(point string) {
	if f := w.yieldFn; f != nil {
		f(point)
	}
}

// ---------------------------------------------------------------------------
// setup

func fcOpt(mode string) []grpctunnel.TunnelOption {
	if mode == "off" {
		return []grpctunnel.TunnelOption{grpctunnel.WithDisableFlowControl()}
	}
	return nil
}

func (w *World) setup() bool {
	cfg := &w.c.Cfg
	if cfg.Dir == "" {
		cfg.Dir = "fwd"
	}
	w.hopts = grpctunnel.TunnelServiceHandlerOptions{
		DisableFlowControl: cfg.ServerFC == "off",
		OnReverseTunnelOpen: func(ch grpctunnel.TunnelChannel) {
			ti := tunnelIndexOf(ch)
			var t *tunnelState
			func() {
				w.mu.Lock()
				defer w.mu.Unlock()
				w.revChans = append(w.revChans, revChan{ch: ch, tunnel: ti})
				if ti >= 0 && ti < len(w.tunnels) {
					t = w.tunnels[ti]
					t.ch = ch
					if t.rec.Late {
						t.rec.Opened = true
						t.rec.OpenErr = ""
					}
					t.rec.Callbacks = append(t.rec.Callbacks, fmt.Sprintf("open@%d", w.step))
				} else {
					w.tr.Notes = append(w.tr.Notes, fmt.Sprintf("open callback for unknown tunnel %d", ti))
				}
			}()
			w.cbYield("cb.open")
			if t != nil {
				w.mu.Lock()
				t.openCbEnd = true
				w.mu.Unlock()
			}
		},
		OnReverseTunnelClose: func(ch grpctunnel.TunnelChannel) {
			func() {
				w.mu.Lock()
				defer w.mu.Unlock()
				ti := tunnelIndexOf(ch)
				for i := range w.revChans {
					if w.revChans[i].ch == ch {
						w.revChans[i].closed = true
					}
				}
				if ti >= 0 && ti < len(w.tunnels) {
					t := w.tunnels[ti]
					t.rec.Callbacks = append(t.rec.Callbacks, fmt.Sprintf("close@%d", w.step))
				}
			}()
			w.cbYield("cb.close")
		},
	}
	if cfg.HasKeyFn {
		w.hopts.AffinityKey = func(ch grpctunnel.TunnelChannel) any {
			w.cbYield("cb.affinity")
			md, _ := metadata.FromIncomingContext(ch.Context())
			if v := md.Get("x-verif-key"); len(v) > 0 {
				return keyVal(v[0])
			}
			return nil
		}
	}
	w.handler = grpctunnel.NewTunnelServiceHandler(w.hopts)
	w.handler.RegisterService(&svcDesc, &Instance{w: w, idx: 0})
	w.handler.RegisterService(&svcDescAlt, &Instance{w: w, idx: 0})
	if cfg.Dir == "nested" || cfg.Dir == "nestedrev" {
		tunnelpb.RegisterTunnelServiceServer(w.handler, w.handler.Service())
	}
	if cfg.Carrier == "bufconn" {
		w.bufStart()
	} else {
		w.net.RegisterService(&tunnelpb.TunnelService_ServiceDesc, w.handler.Service())
	}

	specs := cfg.Tunnels
	if len(specs) == 0 {
		specs = []TunnelSpec{{}}
	}
	if w.c.Raw != nil {
		if w.c.Raw.Role == "server" {
			return w.setupRawServer()
		}
		if cfg.Dir == "rev" {
			return w.setupRawClientReverse()
		}
		return w.setupRawClient()
	}
	if w.c.Reg != nil {
		return true // registry cases build their own tunnels
	}
	for i := range specs {
		if !w.openTunnel(specs[i], true) {
			return false
		}
	}
	if cfg.Dir == "nested" || cfg.Dir == "nestedrev" {
		if !w.openNested() {
			return false
		}
	}
	return true
}

func tunnelIndexOf(ch grpctunnel.TunnelChannel) int {
	md, _ := metadata.FromIncomingContext(ch.Context())
	if v := md.Get("x-verif-tunnel"); len(v) > 0 {
		if n, err := strconv.Atoi(v[0]); err == nil {
			return n
		}
	}
	return -1
}

func (w *World) connOpts(spec TunnelSpec) ConnOpts {
	cfg := &w.c.Cfg
	return ConnOpts{
		PeerAddr:           spec.Peer,
		ServerAddr:         "server.verif:443",
		CtxValue:           nilIfEmpty(spec.CtxVal),
		InterceptMD:        spec.IcptMD,
		ServerOutMD:        spec.SrvOutMD,
		// A legacy peer neither sends nor looks at the negotiate key; emulating one
		// with a current endpoint therefore hides the key in both directions.
		StripReqNegotiate:  cfg.ClientFC == "legacy" || cfg.ServerFC == "legacy",
		StripRespNegotiate: cfg.ClientFC == "legacy" || cfg.ServerFC == "legacy",
		Auto:               true,
		Capacity:           0,
	}
}

func nilIfEmpty(s string) any {
	if s == "" {
		return nil
	}
	return s
}

// openTunnel opens one more tunnel according to the configured direction and
// waits (auto delivery) until it is established.
func (w *World) openTunnel(spec TunnelSpec, fatal bool) bool {
	cfg := &w.c.Cfg
	w.mu.Lock()
	idx := len(w.tunnels)
	t := &tunnelState{idx: idx, spec: spec}
	t.rec = &TunnelRec{Idx: idx, Carrier: -1, DoneStep: -1, ServeReturned: -1, Revision: -1}
	w.tunnels = append(w.tunnels, t)
	w.tr.Tunnels = append(w.tr.Tunnels, t.rec)
	w.mu.Unlock()

	md := metadata.MD{}
	for k, v := range cfg.OpenMD {
		md[k] = append([]string{}, v...)
	}
	for k, v := range spec.MD {
		md[k] = append([]string{}, v...)
	}
	md.Set("x-verif-tunnel", strconv.Itoa(idx))
	if spec.Key != "" {
		md.Set("x-verif-key", spec.Key)
	}
	ctx := metadata.NewOutgoingContext(context.Background(), md)
	if spec.CtxVal != "" {
		// a value a client interceptor stored in the context of the tunnel-opening call
		ctx = context.WithValue(ctx, InterceptorKey{}, "cli-"+spec.CtxVal)
	}
	t.openCtx, t.cancel = context.WithCancel(ctx)
	for _, ev := range w.c.Events {
		if ev.Kind == "expire_open" && ev.Target == idx {
			t.expireAt = time.Now().Add(10 * time.Minute)
			w.addTimer(t.expireAt)
			t.openCtx, t.cancel = context.WithDeadline(ctx, t.expireAt)
		}
	}
	var cci grpc.ClientConnInterface
	if cfg.Carrier == "bufconn" {
		cci = w.bufDial() // real grpc-go over an in-process pipe (free-running engines only)
	} else {
		conn0 := w.net.Conn(w.connOpts(spec))
		w.mu.Lock()
		t.conn = conn0
		w.mu.Unlock()
		cci = conn0
	}
	stub := tunnelpb.NewTunnelServiceClient(cci)

	switch cfg.Dir {
	case "fwd", "nested":
		w.mu.Lock()
		t.rec.Kind = "fwd"
		w.mu.Unlock()
		ch, err := grpctunnel.NewChannel(stub, fcOpt(cfg.ClientFC)...).Start(t.openCtx)
		w.mu.Lock()
		if err != nil {
			t.rec.OpenErr = err.Error()
			w.mu.Unlock()
			return !fatal
		}
		t.ch = ch
		t.rec.Opened = true
		t.rec.ServeStarted = true
		w.mu.Unlock()
	case "rev", "nestedrev":
		w.mu.Lock()
		t.rec.Kind = "rev"
		w.mu.Unlock()
		w.mu.Lock()
		if spec.Server < 0 {
			spec.Server = len(w.servers) // a reverse-tunnel server of its own (index allocated under the lock)
		}
		for len(w.servers) <= spec.Server {
			rs := &revServer{idx: len(w.servers), conn: t.conn}
			rs.rs = grpctunnel.NewReverseTunnelServer(stub, fcOpt(cfg.ClientFC)...)
			rs.rs.RegisterService(&svcDesc, &Instance{w: w, idx: rs.idx})
			rs.rs.RegisterService(&svcDescAlt, &Instance{w: w, idx: rs.idx})
			if cfg.Dir == "nestedrev" {
				tunnelpb.RegisterTunnelServiceServer(rs.rs, w.handler.Service())
			}
			w.servers = append(w.servers, rs)
		}
		t.server = w.servers[spec.Server]
		w.mu.Unlock()
		createdBefore := 0
		if t.server.conn != nil {
			createdBefore = len(t.server.conn.Created())
		}
		go w.serveLoop(t)
		w.settle()
		if t.server.conn == nil {
			// no tap on a real transport
		} else if cs := t.server.conn.Created(); len(cs) > createdBefore {
			w.mu.Lock()
			t.carrier = cs[len(cs)-1]
			t.rec.Carrier = t.carrier.Idx
			w.mu.Unlock()
		}
		w.mu.Lock()
		opened := t.ch != nil
		w.mu.Unlock()
		for j := 0; w.free && !opened && j < 2000; j++ {
			time.Sleep(500 * time.Microsecond)
			w.mu.Lock()
			opened = t.ch != nil || t.rec.ServeReturned >= 0
			w.mu.Unlock()
		}
		w.mu.Lock()
		t.rec.Opened = opened
		if !opened {
			if t.rec.OpenErr == "" {
				t.rec.OpenErr = "reverse tunnel did not register"
			}
			w.mu.Unlock()
			return !fatal
		}
		w.mu.Unlock()
	default:
		panic("bad dir " + cfg.Dir)
	}
	w.mu.Lock()
	conn := t.conn
	if t.server != nil && t.server.conn != nil {
		conn = t.server.conn
	}
	w.mu.Unlock()
	if conn == nil {
		return true
	}
	if cs := conn.Created(); len(cs) > 0 {
		w.mu.Lock()
		t.carrier = cs[len(cs)-1]
		t.rec.Carrier = t.carrier.Idx
		w.mu.Unlock()
	}
	return true
}

// ---------------------------------------------------------------------------
// real grpc-go carrier (Cfg.Carrier == "bufconn"): the tunnel service is registered on a grpc.Server that listens on an
// in-process pipe; every tunnel gets its own grpc.ClientConn. No tap, no fault injection, no stepping: free-running only.

type bufNet struct {
	srv   *grpc.Server
	lis   *bufconn.Listener
	conns []*grpc.ClientConn
}

func (w *World) bufStart() {
	b := &bufNet{srv: grpc.NewServer(), lis: bufconn.Listen(1 << 20)}
	tunnelpb.RegisterTunnelServiceServer(b.srv, w.handler.Service())
	go func() { _ = b.srv.Serve(b.lis) }()
	w.buf = b
}

func (w *World) bufDial() grpc.ClientConnInterface {
	lis := w.buf.lis
	cc, err := grpc.NewClient("passthrough:///verif-bufconn",
		grpc.WithContextDialer(func(ctx context.Context, _ string) (net.Conn, error) { return lis.DialContext(ctx) }),
		grpc.WithTransportCredentials(insecure.NewCredentials()))
	if err != nil {
		panic(err)
	}
	w.mu.Lock()
	w.buf.conns = append(w.buf.conns, cc)
	w.mu.Unlock()
	return cc
}

func (w *World) bufStop() {
	if w.buf == nil {
		return
	}
	w.mu.Lock()
	conns := append([]*grpc.ClientConn(nil), w.buf.conns...)
	w.mu.Unlock()
	for _, cc := range conns {
		_ = cc.Close()
	}
	w.buf.srv.Stop()
	_ = w.buf.lis.Close()
}

// serveLoop runs ReverseTunnelServer.Serve for one reverse tunnel.
func (w *World) serveLoop(t *tunnelState) {
	var started bool
	var err error
	w.mu.Lock()
	if w.phase != "setup" {
		t.rec.ServeCalled = w.step
	}
	w.mu.Unlock()
	func() {
		defer func() {
			if r := recover(); r != nil {
				w.mu.Lock()
				w.tr.Panics = append(w.tr.Panics, fmt.Sprintf("Serve goroutine of tunnel %d: %v", t.idx, r))
				w.mu.Unlock()
				err = fmt.Errorf("panic: %v", r)
			}
		}()
		started, err = t.server.rs.Serve(t.openCtx)
	}()
	w.mu.Lock()
	defer w.mu.Unlock()
	if w.frozen {
		return
	}
	t.rec.ServeStarted = started
	t.rec.ServeReturned = w.step
	if err != nil {
		t.rec.ServeErr = err.Error()
		if !started {
			t.rec.OpenErr = err.Error()
		}
	} else {
		t.rec.ServeErrNil = true
	}
}

func (w *World) openNested() bool {
	outer := w.tunnels[0]
	var cc grpc.ClientConnInterface = outer.ch
	if w.c.Cfg.Dir == "nestedrev" {
		cc = w.handler.AsChannel()
	}
	w.mu.Lock()
	idx := len(w.tunnels)
	t := &tunnelState{idx: idx, inner: true}
	t.rec = &TunnelRec{Idx: idx, Kind: "nested", Carrier: -1, DoneStep: -1, ServeReturned: -1, Revision: -1}
	w.tunnels = append(w.tunnels, t)
	w.tr.Tunnels = append(w.tr.Tunnels, t.rec)
	w.mu.Unlock()
	md := metadata.Pairs("x-verif-tunnel", strconv.Itoa(idx), "x-verif-nested", "1")
	t.openCtx, t.cancel = context.WithCancel(metadata.NewOutgoingContext(context.Background(), md))
	ch, err := grpctunnel.NewChannel(tunnelpb.NewTunnelServiceClient(cc), fcOpt(w.c.Cfg.ClientFC)...).Start(t.openCtx)
	if err != nil {
		t.rec.OpenErr = err.Error()
		return false
	}
	t.ch = ch
	t.rec.Opened = true
	t.rec.ServeStarted = true
	return true
}

// keyVal: the affinity key a case's key string stands for. Keys are arbitrary comparable values, not just strings: "#7"
// is the int 7, anything else the string itself - so "7" and "#7" are two different keys that print alike.
func keyVal(k string) any {
	if strings.HasPrefix(k, "#") {
		if n, err := strconv.Atoi(k[1:]); err == nil {
			return n
		}
	}
	return k
}

// defaultChannel returns the channel RPCs use unless they say otherwise.
func (w *World) channelFor(sel string) grpc.ClientConnInterface {
	cfg := &w.c.Cfg
	switch {
	case strings.HasPrefix(sel, "key:"):
		k := strings.TrimPrefix(sel, "key:")
		if k == "<nil>" {
			return w.handler.KeyAsChannel(nil)
		}
		return w.handler.KeyAsChannel(keyVal(k))
	case strings.HasPrefix(sel, "tunnel:"):
		i, _ := strconv.Atoi(strings.TrimPrefix(sel, "tunnel:"))
		w.mu.Lock()
		defer w.mu.Unlock()
		if i < len(w.tunnels) && w.tunnels[i].ch != nil {
			return w.tunnels[i].ch
		}
		return nil
	}
	switch cfg.Dir {
	case "fwd":
		w.mu.Lock()
		defer w.mu.Unlock()
		return w.tunnels[0].ch
	case "rev":
		return w.handler.AsChannel()
	case "nested", "nestedrev":
		w.mu.Lock()
		defer w.mu.Unlock()
		for i := len(w.tunnels) - 1; i >= 0; i-- {
			if w.tunnels[i].inner {
				return w.tunnels[i].ch
			}
		}
	}
	return nil
}

// switchToStepped flips all carriers to held delivery with the configured capacity.
func (w *World) holdCarriers() {
	for _, s := range w.net.Streams() {
		s.SetAuto(false)
		s.SetCapacity(w.c.Cfg.Cap)
	}
}

// ---------------------------------------------------------------------------
// observation

func (w *World) observeTunnels() {
	w.mu.Lock()
	ts := append([]*tunnelState(nil), w.tunnels...)
	step := w.step
	// a goroutine the schedule holds at a park point may hold the channel's lock (an application callback invoked under it,
	// say): Err() would block the root, the only one who can release it. The channel is looked at again once nothing is parked.
	parkedNow := len(w.parked) > 0
	w.mu.Unlock()
	for _, t := range ts {
		w.mu.Lock()
		tch := t.ch
		doneStep, kind, carrier, serveRet := t.rec.DoneStep, t.rec.Kind, t.carrier, t.rec.ServeReturned
		w.mu.Unlock()
		if tch != nil && doneStep < 0 && !parkedNow {
			select {
			case <-tch.Done():
				err := tch.Err()
				w.mu.Lock()
				t.rec.DoneStep = step
				if err != nil {
					t.rec.ChanErr = err.Error()
				} else {
					t.rec.ChanErrNil = true
				}
				w.mu.Unlock()
			default:
			}
		}
		if kind == "fwd" && carrier != nil && serveRet < 0 {
			w.net.mu.Lock()
			done, herr := carrier.HandlerDone, carrier.HandlerErr
			w.net.mu.Unlock()
			if done {
				w.mu.Lock()
				t.rec.ServeReturned = step
				if herr != nil {
					t.rec.ServeErr = herr.Error()
				} else {
					t.rec.ServeErrNil = true
				}
				w.mu.Unlock()
			}
		}
	}
}

type goroutineCounts struct {
	lib, carrier, app int
	stacks            []string
}

// bubbleGoroutines classifies the goroutines of the current bubble that have a
// frame in package grpctunnel.
func bubbleGoroutines(withStacks bool) goroutineCounts {
	buf := make([]byte, 1<<20)
	for {
		n := runtime.Stack(buf, true)
		if n < len(buf) {
			buf = buf[:n]
			break
		}
		buf = make([]byte, 2*len(buf))
	}
	var gc goroutineCounts
	// only goroutines of OUR bubble: the first goroutine of the dump is the caller; goroutines of earlier bubbles that
	// could not exit (a case that ended in a bubble deadlock) stay in the process and must not be counted again
	mine := ""
	for gi, g := range strings.Split(string(buf), "\n\n") {
		nl := strings.IndexByte(g, '\n')
		if nl < 0 {
			continue
		}
		hdr := g[:nl]
		if gi == 0 {
			if i := strings.Index(hdr, "synctest bubble "); i >= 0 {
				mine = strings.TrimRight(hdr[i:], "]:")
			}
		}
		if !strings.Contains(hdr, "synctest bubble") || (mine != "" && !strings.Contains(hdr, mine+"]") && !strings.HasSuffix(strings.TrimRight(hdr, ":"), mine+"]")) {
			continue
		}
		if !strings.Contains(g, "github.com/jhump/grpctunnel.") {
			continue
		}
		isCarrier := strings.Contains(g, "verifharness.(*Stream).runHandler") || strings.Contains(g, "verifharness.(*World).serveLoop") || strings.Contains(g, "verifharness.(*rawPeer)")
		isApp := strings.Contains(g, "verifharness.(*World)") || strings.Contains(g, "verifharness.unaryHandler") || strings.Contains(g, "verifharness.streamHandlerFor")
		switch {
		case isCarrier:
			gc.carrier++
		case isApp:
			gc.app++
		default:
			gc.lib++
			if withStacks {
				gc.stacks = append(gc.stacks, g)
			}
		}
	}
	return gc
}

func (w *World) snapshot(phase string) *Snapshot {
	gc := bubbleGoroutines(true)
	w.mu.Lock()
	sn := &Snapshot{Step: w.step, Phase: phase, LibGoroutines: gc.lib, NowNs: time.Since(epoch()).Nanoseconds(), Parked: len(w.parked)}
	if phase == "ended" || phase == "final" || gc.lib > 8 {
		for _, s := range gc.stacks {
			if len(s) > 1500 {
				s = s[:1500]
			}
			sn.Stacks = append(sn.Stacks, s)
		}
	}
	sn.Stacks = append(sn.Stacks[:0:0], sn.Stacks...)
	sn.PendingOps = nil
	for _, o := range w.tr.Ops {
		if o.Pending() {
			sn.PendingOps = append(sn.PendingOps, fmt.Sprintf("%s %s#%d", o.Actor, o.Kind, o.Idx))
		}
	}
	ts := append([]*tunnelState(nil), w.tunnels...)
	credsHeld := false // a goroutine held inside the credentials callback has the channel's lock: the table cannot be read now
	for _, p := range w.parked {
		if p.point == "cb.creds" {
			credsHeld = true
		}
	}
	w.mu.Unlock()
	for _, t := range ts {
		var ids []int64
		if t.ch != nil && !credsHeld {
			if got, ok := grpctunnel.VerifChannelStreamIDs(t.ch); ok {
				ids = got
				if ids == nil {
					ids = []int64{}
				}
			}
		}
		sn.ClientTables = append(sn.ClientTables, ids)
	}
	for _, si := range grpctunnel.VerifServers() {
		if si.Seq <= w.serverSeqBase {
			continue // a tunnel server left over from an earlier case of this process
		}
		ids := si.StreamIDs
		if ids == nil {
			ids = []int64{}
		}
		sn.ServerTables = append(sn.ServerTables, ids)
	}
	if w.handler != nil {
		all := w.handler.AllReverseTunnels()
		sn.Registry = len(all)
		for _, ch := range all {
			select {
			case <-ch.Done():
				sn.RegistryDone++
			default:
			}
		}
	}
	if w.handler != nil && (w.c.Cfg.Dir == "rev" || w.c.Cfg.Dir == "nestedrev") {
		// the per-key level of the registry, seen through KeyAsChannel(k).Ready()
		keys := map[string]bool{"a": true, "b": true, "c": true}
		for _, ts := range w.c.Cfg.Tunnels {
			if ts.Key != "" {
				keys[ts.Key] = true
			}
		}
		for _, op := range w.c.Reg {
			if op.Key != "" {
				keys[op.Key] = true
			}
		}
		func() {
			defer func() { _ = recover() }()
			if w.handler.KeyAsChannel(nil).Ready() {
				sn.KeyReady = append(sn.KeyReady, "<nil>")
			}
			for k := range keys {
				if w.handler.KeyAsChannel(keyVal(k)).Ready() {
					sn.KeyReady = append(sn.KeyReady, k)
				}
			}
			sort.Strings(sn.KeyReady)
		}()
	}
	for _, s := range w.net.Streams() {
		sn.InFlight += s.Pending(C2S) + s.Pending(S2C)
	}
	sn.Carrier, sn.App = gc.carrier, gc.app
	w.mu.Lock()
	w.tr.Snapshots = append(w.tr.Snapshots, sn)
	w.mu.Unlock()
	return sn
}

func epoch() time.Time { return time.Date(2000, 1, 1, 0, 0, 0, 0, time.UTC) }

// ---------------------------------------------------------------------------
// actors

func (w *World) newActor(name string, rpc int, side string) *Actor {
	a := &Actor{name: name, rpc: rpc, side: side, cmd: make(chan *opSpec)}
	if rpc >= 0 && rpc < len(w.c.RPCs) {
		switch f := w.c.RPCs[rpc].Fuse; {
		case f == "both", f == "h" && side == "handler", f == "c" && side == "caller":
			a.fuse = true
		}
	}
	w.mu.Lock()
	a.id = len(w.actors)
	w.actors = append(w.actors, a)
	w.mu.Unlock()
	return a
}

func (w *World) startActor(a *Actor) {
	go w.actorLoop(a)
}

func (w *World) actorLoop(a *Actor) {
	for {
		var op *opSpec
		if w.free {
			// free-running (stress engine): the actor steps itself; it only waits for its enabling condition
			for {
				w.mu.Lock()
				ok := a.enabled == nil || a.enabled() || a.done
				if ok {
					op = w.pullOpLocked(a)
				}
				w.mu.Unlock()
				if ok {
					break
				}
				select {
				case <-w.quit:
					return
				case <-time.After(20 * time.Microsecond):
				}
			}
			if op == nil {
				return
			}
		} else {
			if op = w.pullFused(a); op == nil {
				select {
				case op = <-a.cmd:
				case <-w.quit:
					return
				}
			}
			if op == nil {
				return
			}
		}
		w.runOp(a, op)
	}
}

// pullFused: a fused actor (RPC.Fuse) that has just finished an operation takes its next one
// at once, without waiting for the scheduler - as real application code does. Whatever the
// library started asynchronously during the first operation now races with the second.
func (w *World) pullFused(a *Actor) *opSpec {
	if !a.fuse || !a.ranOne {
		return nil
	}
	w.mu.Lock()
	defer w.mu.Unlock()
	if w.frozen || !w.actorEnabledLocked(a) || w.phase != "run" {
		return nil
	}
	return w.pullOpLocked(a)
}

// pullOpLocked prepares the next op of a (w.mu held). Returns nil if the actor has finished.
func (w *World) pullOpLocked(a *Actor) *opSpec {
	if a.done {
		return nil
	}
	if w.frozen {
		// the run is over: no new operations (the monitors are about to read the trace)
		a.done = true
		return nil
	}
	op := a.next()
	if op == nil {
		a.done = true
		return nil
	}
	if w.free {
		w.step++ // logical clock
	}
	rec := &OpRec{Seq: len(w.tr.Ops), Actor: a.name, RPC: a.rpc, Side: a.side, Kind: op.kind, Idx: op.idx, Start: w.step, End: -1, Code: CodeNil}
	w.tr.Ops = append(w.tr.Ops, rec)
	a.cur = rec
	a.busy = true
	return op
}

func (w *World) runOp(a *Actor, op *opSpec) {
	rec := a.cur
	op.run(rec)
	w.mu.Lock()
	if w.free {
		w.step++
	}
	rec.End = w.step
	rec.Phase = w.phase
	a.busy = false
	a.ranOne = true
	w.mu.Unlock()
}

// dispatch sends the next op to a stepped actor. Returns false if the actor had nothing to do.
func (w *World) dispatch(a *Actor) bool {
	w.mu.Lock()
	op := w.pullOpLocked(a)
	w.mu.Unlock()
	if op == nil {
		return false
	}
	select {
	case a.cmd <- op:
	case <-w.quit:
	}
	return true
}

func (w *World) actorEnabledLocked(a *Actor) bool {
	if a.busy || a.done || a.stalled {
		return false
	}
	if a.enabled != nil && !a.enabled() {
		return false
	}
	return true
}

// ---------------------------------------------------------------------------
// caller-side actors

func shapeDesc(shape string) *grpc.StreamDesc {
	switch shape {
	case "cstream":
		return &grpc.StreamDesc{ClientStreams: true}
	case "sstream":
		return &grpc.StreamDesc{ServerStreams: true}
	case "bidi":
		return &grpc.StreamDesc{ClientStreams: true, ServerStreams: true}
	}
	return &grpc.StreamDesc{}
}

func shapeMethod(shape string) string {
	switch shape {
	case "cstream":
		return "/verif.Svc/CStream"
	case "sstream":
		return "/verif.Svc/SStream"
	case "bidi":
		return "/verif.Svc/Bidi"
	}
	return "/verif.Svc/Unary"
}

func reqStreams(shape string) bool  { return shape == "cstream" || shape == "bidi" }
func respStreams(shape string) bool { return shape == "sstream" || shape == "bidi" }

type verifCreds struct {
	c   *Creds
	tag string
	w   *World
}

func (v verifCreds) GetRequestMetadata(ctx context.Context, uri ...string) (map[string]string, error) {
	if v.w != nil {
		// fetching credentials is application code: it may take a while (a token refresh, say)
		if v.w.free && v.c.SlowUs > 0 {
			time.Sleep(time.Duration(v.c.SlowUs) * time.Microsecond)
		}
		v.w.cbYield("cb.creds")
	}
	if v.c.Fail {
		return nil, status.Error(codes.Unauthenticated, "scripted credentials failure")
	}
	out := map[string]string{}
	for k, val := range v.c.MD {
		out[decStr(k)] = decStr(val)
	}
	if v.tag != "" {
		out[tagKey] = v.tag
	}
	return out, nil
}
func (v verifCreds) RequireTransportSecurity() bool { return v.c.RequireTLS }

func (w *World) callCtx(r *rpcState) (context.Context, []grpc.CallOption) {
	sp := r.spec
	ctx := context.Background()
	var cancel context.CancelFunc
	switch {
	case sp.NoCancelCtx && sp.Timeout == 0 && !sp.PreCancel:
		// a context that can never be cancelled (context.Background(), perhaps with values): ctx.Done() is nil
		cancel = func() {}
	case sp.Timeout > 0 && sp.CtxCause:
		// the application attaches its own causes: ctx.Err() is still DeadlineExceeded / Canceled, context.Cause(ctx) is not
		w.addTimer(time.Now().Add(time.Duration(sp.Timeout) * time.Millisecond))
		ctx, cancel = context.WithTimeoutCause(ctx, time.Duration(sp.Timeout)*time.Millisecond, errors.New("verif: the application's own timeout cause"))
	case sp.Timeout > 0:
		w.addTimer(time.Now().Add(time.Duration(sp.Timeout) * time.Millisecond))
		ctx, cancel = context.WithTimeout(ctx, time.Duration(sp.Timeout)*time.Millisecond)
	case sp.CtxCause:
		var cc context.CancelCauseFunc
		ctx, cc = context.WithCancelCause(ctx)
		cancel = func() { cc(errors.New("verif: the application's own cancellation cause")) }
	default:
		ctx, cancel = context.WithCancel(ctx)
	}
	w.mu.Lock()
	r.cancel = cancel
	w.mu.Unlock()
	if sp.PreCancel {
		cancel()
	}
	tag := strconv.Itoa(r.idx)
	if !sp.NoMD {
		md := metadata.MD{}
		for k, v := range decMD(sp.ReqMD) {
			md[k] = v
		}
		md.Set(tagKey, tag)
		if len(sp.GrpcTimeout) > 0 {
			for _, v := range sp.GrpcTimeout {
				md["grpc-timeout"] = append(md["grpc-timeout"], decStr(v))
			}
		} else if sp.GrpcTimeoutNoValues {
			md["grpc-timeout"] = []string{} // the key is there, with no value at all
		}
		ctx = metadata.NewOutgoingContext(ctx, md)
	}
	var opts []grpc.CallOption
	if sp.Creds != nil {
		vc := verifCreds{c: sp.Creds, w: w}
		if sp.NoMD {
			vc.tag = tag
		}
		opts = append(opts, grpc.PerRPCCredentials(vc))
	}
	if sp.HdrOpt {
		opts = append(opts, grpc.Header(&r.hdrTarget))
	}
	if sp.TrlOpt {
		opts = append(opts, grpc.Trailer(&r.trlTarget))
	}
	if sp.PeerOpt {
		opts = append(opts, grpc.Peer(&r.peerTarget))
	}
	if sp.Opt2 {
		// the same options once more (application code plus an interceptor, say): every location is filled
		if sp.HdrOpt {
			opts = append(opts, grpc.Header(&r.hdrTarget2))
		}
		if sp.TrlOpt {
			opts = append(opts, grpc.Trailer(&r.trlTarget2))
		}
		if sp.PeerOpt {
			opts = append(opts, grpc.Peer(&r.peerTarget2))
		}
	}
	if sp.ChanOpt {
		opts = append(opts, grpctunnel.WithTunnelChannel(&r.chanTarget))
		if sp.ChanOpt2 {
			// a second option on the same call (application code plus an interceptor, say): both locations are filled
			opts = append(opts, grpctunnel.WithTunnelChannel(&r.chanTarget2))
		}
	}
	w.mu.Lock()
	r.ctx = ctx
	w.mu.Unlock()
	return ctx, opts
}

func (w *World) methodOf(sp *RPC) string {
	if sp.Method != "" {
		if sp.Method == "<empty>" {
			return ""
		}
		return decStr(sp.Method)
	}
	if sp.Alt {
		return strings.Replace(shapeMethod(sp.Shape), "/verif.Svc/", "/verif.Alt/", 1)
	}
	return shapeMethod(sp.Shape)
}

// appCall wraps a call into the library so that a panic in the calling
// goroutine is recorded rather than killing the process.
func (w *World) appCall(rec *OpRec, f func()) {
	defer func() {
		if r := recover(); r != nil {
			w.mu.Lock()
			w.tr.Panics = append(w.tr.Panics, fmt.Sprintf("%s %s#%d: %v", rec.Actor, rec.Kind, rec.Idx, r))
			w.mu.Unlock()
			rec.Err = fmt.Sprintf("panic: %v", r)
			rec.Code = int(codes.Internal)
			if rec.Extra == nil {
				rec.Extra = map[string]string{}
			}
			rec.Extra["panic"] = fmt.Sprint(r)
		}
	}()
	f()
}

func (w *World) recordTerminalExtras(r *rpcState, rec *OpRec) {
	// read immediately, in the same actor step, what must be available now
	if r.stream != nil {
		rec.TrailerNow = cloneMD(r.stream.Trailer())
		if rec.TrailerNow == nil {
			rec.TrailerNow = map[string][]string{}
		}
	}
	if r.spec.TrlOpt {
		rec.TrailerOptNow = cloneMD(r.trlTarget)
		if rec.TrailerOptNow == nil {
			rec.TrailerOptNow = map[string][]string{}
		}
		w.noteOpt2(r, rec, false, true)
	}
	w.recordHeaderNow(r, rec)
}

// noteOpt2: with every option passed twice, the second location must hold what the first holds whenever the first is read.
func (w *World) noteOpt2(r *rpcState, rec *OpRec, hdr, trl bool) {
	if !r.spec.Opt2 {
		return
	}
	var diff []string
	if hdr && r.spec.HdrOpt && !mdEqual(cloneMD(r.hdrTarget), cloneMD(r.hdrTarget2)) {
		diff = append(diff, fmt.Sprintf("grpc.Header: first location %s, second %s", mdString(cloneMD(r.hdrTarget)), mdString(cloneMD(r.hdrTarget2))))
	}
	if trl && r.spec.TrlOpt && !mdEqual(cloneMD(r.trlTarget), cloneMD(r.trlTarget2)) {
		diff = append(diff, fmt.Sprintf("grpc.Trailer: first location %s, second %s", mdString(cloneMD(r.trlTarget)), mdString(cloneMD(r.trlTarget2))))
	}
	if r.spec.PeerOpt {
		a, b := "<none>", "<none>"
		if r.peerTarget.Addr != nil {
			a = r.peerTarget.Addr.String()
		}
		if r.peerTarget2.Addr != nil {
			b = r.peerTarget2.Addr.String()
		}
		if a != b {
			diff = append(diff, fmt.Sprintf("grpc.Peer: first location %s, second %s", a, b))
		}
	}
	if len(diff) > 0 {
		if rec.Extra == nil {
			rec.Extra = map[string]string{}
		}
		rec.Extra["opt2_differs"] = strings.Join(diff, "; ")
	}
}

func (w *World) recordHeaderNow(r *rpcState, rec *OpRec) {
	if r.spec.HdrOpt {
		rec.HeaderOptNow = cloneMD(r.hdrTarget)
		if rec.HeaderOptNow == nil {
			rec.HeaderOptNow = map[string][]string{}
		}
		w.noteOpt2(r, rec, true, false)
	}
	if r.stream != nil {
		// Header() must not block now: run it in a helper goroutine and only take a result that is already there
		type res struct {
			md  metadata.MD
			err error
		}
		ch := make(chan res, 1)
		if rec.Extra == nil {
			rec.Extra = map[string]string{}
		}
		rec.Extra["header_now_attempted"] = "1"
		go func() {
			md, err := r.stream.Header()
			ch <- res{md, err}
		}()
		if !w.free {
			// let the helper run; it either finishes at once or blocks
			for i := 0; i < 100 && len(ch) == 0; i++ {
				runtime.Gosched()
			}
		}
		select {
		case x := <-ch:
			rec.HeaderNowSet = true
			rec.HeaderNow = cloneMD(x.md)
			if rec.HeaderNow == nil {
				rec.HeaderNow = map[string][]string{}
			}
			if x.err != nil {
				rec.HeaderNowErr = x.err.Error()
			}
		default:
			if w.free {
				x := <-ch
				rec.HeaderNowSet = true
				rec.HeaderNow = cloneMD(x.md)
				if x.err != nil {
					rec.HeaderNowErr = x.err.Error()
				}
			}
		}
	}
}

func (w *World) buildCallerActors(r *rpcState) {
	sp := r.spec
	name := fmt.Sprintf("c%d", r.idx)
	if sp.Shape == "unary" && sp.Via != "stream" {
		a := w.newActor(name+".invoke", r.idx, "caller")
		a.group = sp.Starter
		a.stalled = sp.StallSend
		a.enabled = func() bool { return sp.AfterEvent == 0 || w.eventsDone[sp.AfterEvent-1] }
		fired := false
		a.next = func() *opSpec {
			if fired {
				return nil
			}
			fired = true
			return &opSpec{kind: "invoke", run: func(rec *OpRec) { w.opInvoke(r, rec) }}
		}
		w.startActor(a)
		return
	}
	// sender
	as := w.newActor(name+".send", r.idx, "caller")
	as.group = sp.Starter
	as.stalled = sp.StallSend
	as.enabled = func() bool { return sp.AfterEvent == 0 || w.eventsDone[sp.AfterEvent-1] }
	nsend := len(sp.Req)
	if sp.ExtraSend {
		nsend++
	}
	stage, sent := 0, 0
	as.next = func() *opSpec {
		switch stage {
		case 0:
			stage = 1
			return &opSpec{kind: "start", run: func(rec *OpRec) { w.opStart(r, rec) }}
		case 1:
			if r.startErr != nil || r.cliSendFailed {
				return nil
			}
			if sent < nsend {
				i := sent
				sent++
				return &opSpec{kind: "send", idx: i, run: func(rec *OpRec) { w.opSend(r, i, rec) }}
			}
			stage = 2
			if sp.NoCloseSend {
				return nil
			}
			return &opSpec{kind: "closesend", run: func(rec *OpRec) {
				w.appCall(rec, func() { setErr(rec, r.stream.CloseSend()) })
			}}
		}
		return nil
	}
	w.startActor(as)
	// receiver
	ar := w.newActor(name+".recv", r.idx, "caller")
	ar.stalled = sp.StallRecv
	ar.enabled = func() bool { return r.started }
	rstage, extra, didHeader, cancelled := 0, 0, false, false
	ar.next = func() *opSpec {
		if r.startErr != nil {
			return nil
		}
		switch rstage {
		case 0:
			if !didHeader && sp.CallHeader > 0 && r.cliRecvN+1 == sp.CallHeader {
				didHeader = true
				return &opSpec{kind: "header", run: func(rec *OpRec) { w.opHeader(r, rec) }}
			}
			if r.cliTerm {
				rstage = 1
				if sp.CallHeader == -1 {
					return &opSpec{kind: "header", run: func(rec *OpRec) { w.opHeader(r, rec) }}
				}
				return w.nextAfterTerm(r, &rstage, &extra)
			}
			if sp.Recvs > 0 && r.cliRecvN >= sp.Recvs {
				if !cancelled {
					cancelled = true
					return &opSpec{kind: "abandon", run: func(rec *OpRec) { r.cancel() }}
				}
				// after abandoning, read the terminal result
			}
			i := r.cliRecvN
			return &opSpec{kind: "recv", idx: i, run: func(rec *OpRec) { w.opRecv(r, i, rec) }}
		default:
			return w.nextAfterTerm(r, &rstage, &extra)
		}
	}
	w.startActor(ar)
}

func (w *World) nextAfterTerm(r *rpcState, rstage *int, extra *int) *opSpec {
	switch *rstage {
	case 1:
		*rstage = 2
		return &opSpec{kind: "trailer", run: func(rec *OpRec) {
			rec.MD = cloneMD(r.stream.Trailer())
			rec.HasMD = rec.MD != nil
		}}
	case 2:
		if *extra < r.spec.ExtraRecvs {
			i := r.cliRecvN + *extra
			*extra++
			return &opSpec{kind: "recv_again", idx: i, run: func(rec *OpRec) {
				var m wrapperspb.BytesValue
				w.appCall(rec, func() { setErr(rec, r.stream.RecvMsg(&m)) })
			}}
		}
		*rstage = 3
	}
	return nil
}

func (w *World) opStart(r *rpcState, rec *OpRec) {
	ctx, opts := w.callCtx(r)
	cc := w.channelFor(r.spec.Chan)
	if cc == nil {
		r.startErr = errors.New("no channel")
		setErr(rec, r.startErr)
		w.mu.Lock()
		r.started = true
		w.mu.Unlock()
		return
	}
	var st grpc.ClientStream
	var err error
	w.appCall(rec, func() {
		st, err = cc.NewStream(ctx, shapeDesc(r.spec.Shape), w.methodOf(r.spec), opts...)
		setErr(rec, err)
	})
	if rec.Extra["panic"] != "" && err == nil {
		err = errors.New("panic")
	}
	w.mu.Lock()
	r.stream = st
	r.startErr = err
	if st == nil && err == nil {
		r.startErr = errors.New("nil stream")
	}
	r.started = true
	w.mu.Unlock()
	if err == nil && st != nil {
		w.recordCallIdentity(r, rec, st.Context())
	}
}

func (w *World) recordCallIdentity(r *rpcState, rec *OpRec, ctx context.Context) {
	if !r.spec.Access && !r.spec.ChanOpt && !r.spec.PeerOpt {
		return
	}
	if rec.Extra == nil {
		rec.Extra = map[string]string{}
	}
	if ctx != nil {
		tc := grpctunnel.TunnelChannelFromContext(ctx)
		rec.Extra["ctx_chan"] = w.chanName(tc)
		if md, ok := grpctunnel.TunnelMetadataFromOutgoingContext(ctx); ok {
			rec.Extra["ctx_tunnel_md"] = mdString(md)
			md.Set("x-mutated", "by-caller")
			for k, v := range md {
				if len(v) > 0 && k != "x-mutated" {
					v[0] = "MUTATED-IN-PLACE"
				}
			}
			md2, _ := grpctunnel.TunnelMetadataFromOutgoingContext(ctx)
			rec.Extra["ctx_tunnel_md_after_mut"] = mdString(md2)
		} else {
			rec.Extra["ctx_tunnel_md"] = "<absent>"
		}
	}
	if r.spec.ChanOpt {
		rec.Extra["opt_chan"] = w.chanName(r.chanTarget)
		if r.spec.ChanOpt2 {
			rec.Extra["opt_chan2"] = w.chanName(r.chanTarget2)
		}
	}
	if r.spec.PeerOpt {
		if r.peerTarget.Addr != nil {
			rec.Extra["opt_peer"] = r.peerTarget.Addr.String()
		} else {
			rec.Extra["opt_peer"] = "<none>"
		}
	}
}

// chanName names a TunnelChannel by the tunnel index it belongs to.
func (w *World) chanName(tc grpctunnel.TunnelChannel) string {
	if tc == nil {
		return "<nil>"
	}
	w.mu.Lock()
	defer w.mu.Unlock()
	for _, t := range w.tunnels {
		if t.ch == tc {
			return fmt.Sprintf("tunnel:%d", t.idx)
		}
	}
	return "<unknown>"
}

func (w *World) opSend(r *rpcState, i int, rec *OpRec) {
	size := 0
	if i < len(r.spec.Req) {
		size = r.spec.Req[i]
	} else {
		size = 9 // extra send
	}
	m := msgOf(payload(r.idx, 'q', i, size))
	w.appCall(rec, func() {
		err := r.stream.SendMsg(m)
		setErr(rec, err)
		if err != nil && i < len(r.spec.Req) {
			// (a refused extra send on a non-streaming side does not end the call: the application goes on to half-close)
			w.mu.Lock()
			r.cliSendFailed = true
			w.mu.Unlock()
		}
	})
}

func (w *World) opRecv(r *rpcState, i int, rec *OpRec) {
	m := &wrapperspb.BytesValue{}
	if r.spec.ReuseMsg {
		// one message object for every receive, as an allocation-conscious application does: whatever the previous message
		// left in it must be gone
		if r.reuseCli == nil {
			r.reuseCli = &wrapperspb.BytesValue{Value: []byte("left over from before the first receive")}
		}
		m = r.reuseCli
	}
	var relay emptypb.Empty
	w.appCall(rec, func() {
		var err error
		if r.spec.RecvUnknown {
			// a receiver whose message type has no field 1 (a relay, a recorder, an older schema): what it is handed must
			// still be the message - the bytes live on as unknown fields and re-encode to what was sent
			err = r.stream.RecvMsg(&relay)
			if err == nil {
				m = &wrapperspb.BytesValue{}
				if uerr := proto.Unmarshal(relay.ProtoReflect().GetUnknown(), m); uerr != nil {
					m.Value = []byte("unknown fields of the received message do not parse: " + uerr.Error())
				}
			}
		} else {
			err = r.stream.RecvMsg(m)
		}
		setErr(rec, err)
		if err == nil {
			obs := classifyPayload(m.Value, r.idx, 'p', i, r.spec.Resp)
			rec.Payload = &obs
			if i == 0 || !respStreams(r.spec.Shape) {
				w.recordHeaderNow(r, rec)
			}
			if !respStreams(r.spec.Shape) {
				// a non-streaming response: the RPC is complete once the one message was returned
				w.recordTerminalExtras(r, rec)
			}
		} else {
			w.recordTerminalExtras(r, rec)
		}
		w.mu.Lock()
		r.cliRecvN++
		if err != nil {
			r.cliTerm = true
		}
		w.mu.Unlock()
	})
}

func (w *World) opHeader(r *rpcState, rec *OpRec) {
	w.appCall(rec, func() {
		md, err := r.stream.Header()
		setErr(rec, err)
		rec.MD = cloneMD(md)
		rec.HasMD = md != nil
		if r.spec.HdrOpt && err == nil {
			// (a Header() that failed, e.g. because the RPC was cancelled, is not a completion signal for the target)
			rec.HeaderOptNow = cloneMD(r.hdrTarget)
			w.noteOpt2(r, rec, true, false)
		}
	})
}

func (w *World) opInvoke(r *rpcState, rec *OpRec) {
	ctx, opts := w.callCtx(r)
	cc := w.channelFor(r.spec.Chan)
	if cc == nil {
		setErr(rec, errors.New("no channel"))
		return
	}
	size := 0
	if len(r.spec.Req) > 0 {
		size = r.spec.Req[0]
	}
	req := msgOf(payload(r.idx, 'q', 0, size))
	var resp wrapperspb.BytesValue
	w.appCall(rec, func() {
		err := cc.Invoke(ctx, w.methodOf(r.spec), req, &resp, opts...)
		setErr(rec, err)
		if err == nil {
			obs := classifyPayload(resp.Value, r.idx, 'p', 0, r.spec.Resp)
			rec.Payload = &obs
		}
		if r.spec.TrlOpt {
			rec.TrailerOptNow = cloneMD(r.trlTarget)
			if rec.TrailerOptNow == nil {
				rec.TrailerOptNow = map[string][]string{}
			}
		}
		if r.spec.HdrOpt {
			rec.HeaderOptNow = cloneMD(r.hdrTarget)
			if rec.HeaderOptNow == nil {
				rec.HeaderOptNow = map[string][]string{}
			}
		}
		w.noteOpt2(r, rec, true, true)
		w.recordCallIdentity(r, rec, nil)
	})
	w.mu.Lock()
	r.started = true
	r.cliTerm = true
	w.mu.Unlock()
	r.cancel()
}

// ---------------------------------------------------------------------------
// handler side

func (w *World) findRPC(ctx context.Context) (*rpcState, int) {
	md, _ := metadata.FromIncomingContext(ctx)
	tag := -1
	if v := md.Get(tagKey); len(v) > 0 {
		if n, err := strconv.Atoi(v[0]); err == nil {
			tag = n
		}
	}
	w.mu.Lock()
	defer w.mu.Unlock()
	if tag >= 0 && tag < len(w.rpcs) {
		return w.rpcs[tag], tag
	}
	if tag < 0 {
		// untagged: the unique RPC that carries no metadata at all and has not been invoked yet
		for _, r := range w.rpcs {
			if r.spec.NoMD && r.spec.Creds == nil && r.inv == nil {
				return r, -1
			}
		}
	}
	return nil, tag
}

func (w *World) logInvocation(inst *Instance, method string, ctx context.Context) (*rpcState, *Invocation) {
	r, tag := w.findRPC(ctx)
	md, _ := metadata.FromIncomingContext(ctx)
	inv := &Invocation{Method: method, Tag: tag, RPC: -1, Instance: inst.idx, MD: cloneMD(md), CtxDoneStep: -1, Returned: -1}
	if dl, ok := ctx.Deadline(); ok {
		inv.HasDeadline = true
		inv.DeadlineNs = int64(time.Until(dl))
	}
	if p, ok := peer.FromContext(ctx); ok && p.Addr != nil {
		inv.Peer = p.Addr.String()
	}
	if v, ok := ctx.Value(InterceptorKey{}).(string); ok {
		inv.CtxVal = v
	}
	tmd, ok := grpctunnel.TunnelMetadataFromIncomingContext(ctx)
	inv.HasTunnelMD = ok
	inv.TunnelMD = cloneMD(tmd)
	if r != nil && r.spec.Access && ok {
		// mutate what the accessor returned in every way a caller might: new key, replaced value list, in-place edit, delete
		tmd.Set("x-mutated", "by-handler")
		for k, v := range tmd {
			if len(v) > 0 && k != "x-mutated" {
				v[0] = "MUTATED-IN-PLACE"
			}
		}
		delete(tmd, "x-verif-tunnel")
		tmd2, _ := grpctunnel.TunnelMetadataFromIncomingContext(ctx)
		inv.TunnelMDAfterMut = cloneMD(tmd2)
		// the RPC's own request metadata, likewise
		if md2, ok2 := metadata.FromIncomingContext(ctx); ok2 {
			for _, v := range md2 {
				if len(v) > 0 {
					v[0] = "MUTATED-IN-PLACE"
				}
			}
		}
	}
	w.mu.Lock()
	inv.Step = w.step
	dup := false
	if r != nil {
		inv.RPC = r.idx
		if r.inv != nil {
			dup = true
		} else {
			r.inv = inv
			r.hctx = ctx
		}
	}
	w.tr.Invocations = append(w.tr.Invocations, inv)
	w.mu.Unlock()
	// context watcher
	go func() {
		select {
		case <-ctx.Done():
			w.mu.Lock()
			if !w.frozen {
				inv.CtxDoneStep = w.step
				inv.CtxErr = ctx.Err().Error()
			}
			w.mu.Unlock()
		case <-w.quit:
		}
	}()
	if dup {
		return nil, inv
	}
	return r, inv
}

// handlerWait runs the ops of a handler-side actor inline on the handler goroutine until next returns nil.
func (w *World) handlerWait(a *Actor) {
	for {
		var op *opSpec
		if w.free {
			for {
				w.mu.Lock()
				ok := a.enabled == nil || a.enabled() || a.done
				if ok {
					op = w.pullOpLocked(a)
				}
				w.mu.Unlock()
				if ok {
					break
				}
				select {
				case <-w.quit:
					return
				case <-time.After(20 * time.Microsecond):
				}
			}
		} else {
			if op = w.pullFused(a); op == nil {
				select {
				case op = <-a.cmd:
				case <-w.quit:
					return
				}
			}
		}
		if op == nil {
			return
		}
		w.runOp(a, op)
		w.mu.Lock()
		done := a.done
		w.mu.Unlock()
		if done {
			return
		}
	}
}

func scriptedStatus(sp *RPC) error {
	if sp.Code == 0 {
		return nil
	}
	st := status.New(codes.Code(sp.Code), sp.Msg)
	if len(sp.Details) > 0 {
		p := st.Proto()
		for _, d := range sp.Details {
			p.Details = append(p.Details, anyDetail(d))
		}
		st = status.FromProto(p)
	}
	return st.Err()
}

func unaryHandler(srv any, ctx context.Context, dec func(any) error, ic grpc.UnaryServerInterceptor) (any, error) {
	return unaryHandlerAs("unary", srv, ctx, dec, ic)
}

func altUnaryHandler(srv any, ctx context.Context, dec func(any) error, ic grpc.UnaryServerInterceptor) (any, error) {
	return unaryHandlerAs("alt:unary", srv, ctx, dec, ic)
}

func unaryHandlerAs(label string, srv any, ctx context.Context, dec func(any) error, _ grpc.UnaryServerInterceptor) (any, error) {
	inst := srv.(*Instance)
	w := inst.w
	r, inv := w.logInvocation(inst, label, ctx)
	defer func() {
		w.mu.Lock()
		if !w.frozen {
			inv.Returned = w.step
		}
		if r != nil {
			r.hReturned = true
		}
		w.mu.Unlock()
	}()
	if r == nil {
		var m wrapperspb.BytesValue
		_ = dec(&m)
		return nil, status.Error(codes.Internal, "verif: no script for this invocation")
	}
	sp := r.spec
	a := w.newActor(fmt.Sprintf("h%d.main", r.idx), r.idx, "handler")
	a.inline = true
	a.stalled = w.stall(sp.HStallSend || sp.HStallRecv)
	var resp any
	var retErr error
	stage, opi := 0, 0
	var decErr error
	a.next = func() *opSpec {
		switch stage {
		case 0:
			stage = 1
			if sp.HRecvs < 0 {
				return a.next()
			}
			return &opSpec{kind: "recv", idx: 0, run: func(rec *OpRec) {
				var m wrapperspb.BytesValue
				err := dec(&m)
				setErr(rec, err)
				decErr = err
				if err == nil {
					obs := classifyPayload(m.Value, r.idx, 'q', 0, sp.Req)
					rec.Payload = &obs
				}
				w.mu.Lock()
				r.hRecvN++
				w.mu.Unlock()
			}}
		case 1:
			if decErr != nil {
				stage = 3
				return &opSpec{kind: "return", run: func(rec *OpRec) { retErr = decErr; setErr(rec, retErr); w.markDone(a) }}
			}
			for opi < len(sp.HOps) {
				op := sp.HOps[opi]
				i := opi
				opi++
				if op.Kind == "send" {
					continue // the unary response is the return value
				}
				return &opSpec{kind: op.Kind, idx: i, run: func(rec *OpRec) { w.opHandlerMD(ctx, nil, op, rec) }}
			}
			stage = 2
			if sp.HWaitCtx {
				return &opSpec{kind: "waitctx", run: func(rec *OpRec) { <-ctx.Done(); setErr(rec, ctx.Err()) }}
			}
			return a.next()
		case 2:
			stage = 3
			return &opSpec{kind: "return", run: func(rec *OpRec) {
				retErr = scriptedStatus(sp)
				if sp.HWaitCtx && retErr == nil {
					retErr = status.FromContextError(ctx.Err()).Err()
				}
				if retErr == nil {
					size := 0
					if len(sp.Resp) > 0 {
						size = sp.Resp[0]
					}
					resp = msgOf(payload(r.idx, 'p', 0, size))
				}
				setErr(rec, retErr)
				w.aimCancel(r, sp.CancelAtReturnUs)
				w.markDone(a)
			}}
		}
		return nil
	}
	w.handlerWait(a)
	if resp == nil && retErr == nil {
		// released by teardown before the scripted return ran; a unary handler must not return (nil, nil)
		retErr = status.Error(codes.Aborted, "verif: handler released by teardown")
	}
	return resp, retErr
}

// aimCancel (free-running engines): cancel the caller's context us microseconds from now - used to aim a cancellation at the
// arrival of what the handler is about to send (its close frame, when called from the return operation).
func (w *World) aimCancel(r *rpcState, us int) {
	if us <= 0 || !w.free || r == nil {
		return
	}
	go func() {
		time.Sleep(time.Duration(us) * time.Microsecond)
		w.mu.Lock()
		c := r.cancel
		w.mu.Unlock()
		if c != nil {
			c()
		}
	}()
}

func (w *World) opHandlerMD(ctx context.Context, ss grpc.ServerStream, op MDOp, rec *OpRec) {
	md := metadata.MD{}
	for k, v := range decMD(op.MD) {
		md[k] = v
	}
	if op.MD == nil {
		md = nil
	}
	rec.MD = cloneMD(md)
	if op.BigKeys > 0 {
		// thousands of keys: converting them takes the receiving end a good fraction of a millisecond (recorded above without them)
		if md == nil {
			md = metadata.MD{}
		}
		for i := 0; i < op.BigKeys; i++ {
			md[fmt.Sprintf("big-%d", i)] = []string{"v"}
		}
	}
	if op.CancelAfterUs > 0 && w.free {
		// free-running engines: the caller's cancellation is aimed at the arrival of this header at its end
		w.mu.Lock()
		var r *rpcState
		if rec.RPC >= 0 && rec.RPC < len(w.rpcs) {
			r = w.rpcs[rec.RPC]
		}
		w.mu.Unlock()
		if r != nil {
			d := time.Duration(op.CancelAfterUs) * time.Microsecond
			defer func() {
				go func() {
					time.Sleep(d)
					w.mu.Lock()
					c := r.cancel
					w.mu.Unlock()
					if c != nil {
						c()
					}
				}()
			}()
		}
	}
	var err error
	switch op.Kind {
	case "sethdr":
		if ss != nil {
			err = ss.SetHeader(md)
		} else {
			err = grpc.SetHeader(ctx, md)
		}
	case "sendhdr":
		if ss != nil {
			err = ss.SendHeader(md)
		} else {
			err = grpc.SendHeader(ctx, md)
		}
	case "settrl":
		if ss != nil {
			ss.SetTrailer(md)
		} else {
			err = grpc.SetTrailer(ctx, md)
		}
	}
	// the map stays the application's: it goes on to scribble on it (a scratch map re-used for the next call, say), which
	// must not show in what the caller reads
	for k, v := range md {
		for i := range v {
			v[i] = "scribbled-after-the-call"
		}
		_ = k
	}
	if md != nil {
		md["scribbled-after-the-call"] = []string{"1"}
	}
	if err != nil && rec.RPC >= 0 {
		w.mu.Lock()
		if rec.RPC < len(w.rpcs) {
			w.rpcs[rec.RPC].hMDErr = err
		}
		w.mu.Unlock()
	}
	setErr(rec, err)
}

func streamHandlerFor(shape string) grpc.StreamHandler {
	return streamHandlerAs(shape)
}

// streamHandlerAs: label is what the invocation log records as the handler that ran ("bidi", or "alt:bidi" for service verif.Alt).
func streamHandlerAs(shape string) grpc.StreamHandler {
	return func(srv any, ss grpc.ServerStream) error {
		inst := srv.(*Instance)
		w := inst.w
		ctx := ss.Context()
		r, inv := w.logInvocation(inst, shape, ctx)
		defer func() {
			w.mu.Lock()
			if !w.frozen {
				inv.Returned = w.step
			}
			if r != nil {
				r.hReturned = true
				if ra := r.hRecvActor; ra != nil {
					if ra.busy && ra.cur != nil {
						ra.cur.Abandoned = true
					}
					ra.done = true
				}
			}
			w.mu.Unlock()
		}()
		if r == nil {
			return status.Error(codes.Internal, "verif: no script for this invocation")
		}
		sp := r.spec
		w.mu.Lock()
		r.hstream = ss
		w.mu.Unlock()
		// receiving side
		if sp.HRecvs >= 0 {
			ar := w.newActor(fmt.Sprintf("h%d.recv", r.idx), r.idx, "handler")
			ar.stalled = w.stall(sp.HStallRecv)
			w.mu.Lock()
			r.hRecvActor = ar
			w.mu.Unlock()
			ar.next = func() *opSpec {
				if r.hRecvTerm || r.hReturned {
					return nil
				}
				if sp.HRecvs > 0 && r.hRecvN >= sp.HRecvs {
					return nil
				}
				i := r.hRecvN
				return &opSpec{kind: "recv", idx: i, run: func(rec *OpRec) {
					m := &wrapperspb.BytesValue{}
					if sp.ReuseMsg {
						if r.reuseSrv == nil {
							r.reuseSrv = &wrapperspb.BytesValue{Value: []byte("left over from before the first receive")}
						}
						m = r.reuseSrv
					}
					var err error
					if sp.RecvUnknown {
						var relay emptypb.Empty
						err = ss.RecvMsg(&relay)
						if err == nil {
							m = &wrapperspb.BytesValue{}
							if uerr := proto.Unmarshal(relay.ProtoReflect().GetUnknown(), m); uerr != nil {
								m.Value = []byte("unknown fields of the received message do not parse: " + uerr.Error())
							}
						}
					} else {
						err = ss.RecvMsg(m)
					}
					setErr(rec, err)
					if err == nil {
						obs := classifyPayload(m.Value, r.idx, 'q', i, sp.Req)
						rec.Payload = &obs
					}
					w.mu.Lock()
					r.hRecvN++
					if err != nil {
						r.hRecvTerm = true
					}
					w.mu.Unlock()
				}}
			}
			w.startActor(ar)
		}
		// sending side + return, inline on the handler goroutine
		as := w.newActor(fmt.Sprintf("h%d.send", r.idx), r.idx, "handler")
		as.inline = true
		as.stalled = w.stall(sp.HStallSend)
		var retErr error
		stage, opi := 0, 0
		extraDone := false
		as.enabled = func() bool {
			if sp.HWaitRecv && sp.HRecvs >= 0 && stage == 0 && opi >= len(sp.HOps) && (!sp.HExtraSend || extraDone) {
				return r.hRecvTerm // about to return: wait for the receiving side
			}
			return true
		}
		sendFailed := false // like any real handler, the script stops sending once a send has failed
		as.next = func() *opSpec {
			switch stage {
			case 0:
				for opi < len(sp.HOps) {
					op := sp.HOps[opi]
					i := opi
					opi++
					if op.Kind == "send" && sendFailed {
						continue
					}
					if op.Kind == "send" {
						return &opSpec{kind: "send", idx: op.Idx, run: func(rec *OpRec) {
							size := 0
							if op.Idx < len(sp.Resp) {
								size = sp.Resp[op.Idx]
							}
							err := ss.SendMsg(msgOf(payload(r.idx, 'p', op.Idx, size)))
							if err != nil {
								sendFailed = true
							}
							setErr(rec, err)
						}}
					}
					return &opSpec{kind: op.Kind, idx: i, run: func(rec *OpRec) { w.opHandlerMD(ctx, ss, op, rec) }}
				}
				if sp.HExtraSend && !extraDone {
					extraDone = true
					return &opSpec{kind: "send", idx: len(sp.Resp), run: func(rec *OpRec) {
						setErr(rec, ss.SendMsg(msgOf(payload(r.idx, 'p', len(sp.Resp), 9))))
					}}
				}
				stage = 1
				if sp.HWaitCtx {
					return &opSpec{kind: "waitctx", run: func(rec *OpRec) { <-ctx.Done(); setErr(rec, ctx.Err()) }}
				}
				return as.next()
			case 1:
				stage = 2
				return &opSpec{kind: "return", run: func(rec *OpRec) {
					retErr = scriptedStatus(sp)
					if sp.HWaitCtx && retErr == nil {
						retErr = status.FromContextError(ctx.Err()).Err()
					}
					if sp.HReturnMDErr {
						// the handler passes on, as its own result, the error a header / trailer call gave it
						w.mu.Lock()
						if r.hMDErr != nil {
							retErr = r.hMDErr
						}
						w.mu.Unlock()
					}
					setErr(rec, retErr)
					w.aimCancel(r, sp.CancelAtReturnUs)
					w.markDone(as)
				}}
			}
			return nil
		}
		w.handlerWait(as)
		return retErr
	}
}

var svcDesc = grpc.ServiceDesc{
	ServiceName: "verif.Svc",
	HandlerType: (*any)(nil),
	Methods:     []grpc.MethodDesc{{MethodName: "Unary", Handler: unaryHandler}},
	Streams: []grpc.StreamDesc{
		{StreamName: "CStream", Handler: streamHandlerFor("cstream"), ClientStreams: true},
		{StreamName: "SStream", Handler: streamHandlerFor("sstream"), ServerStreams: true},
		{StreamName: "Bidi", Handler: streamHandlerFor("bidi"), ClientStreams: true, ServerStreams: true},
	},
	Metadata: "verif.proto",
}

// svcDescAlt is a second service registered next to verif.Svc on every handler: the same method names and shapes, its own
// handlers (the invocation log records "alt:<shape>"), so that "exactly the named handler" covers two services sharing names.
var svcDescAlt = grpc.ServiceDesc{
	ServiceName: "verif.Alt",
	HandlerType: (*any)(nil),
	Methods:     []grpc.MethodDesc{{MethodName: "Unary", Handler: altUnaryHandler}},
	Streams: []grpc.StreamDesc{
		{StreamName: "CStream", Handler: streamHandlerAs("alt:cstream"), ClientStreams: true},
		{StreamName: "SStream", Handler: streamHandlerAs("alt:sstream"), ServerStreams: true},
		{StreamName: "Bidi", Handler: streamHandlerAs("alt:bidi"), ClientStreams: true, ServerStreams: true},
	},
	Metadata: "verif.proto",
}

// ---------------------------------------------------------------------------
// scheduling

func (w *World) buildActors() {
	for i := range w.c.RPCs {
		r := &rpcState{idx: i, spec: &w.c.RPCs[i]}
		w.mu.Lock()
		w.rpcs = append(w.rpcs, r)
		w.mu.Unlock()
	}
	for _, r := range w.rpcs {
		w.buildCallerActors(r)
	}
	w.eventsDone = make([]bool, len(w.c.Events))
	for i, ev := range w.c.Events {
		w.tr.Events = append(w.tr.Events, &EventRec{Idx: i, Kind: ev.Kind, Fired: -1, Returned: -1})
	}
	w.holdCarriers()
}

type action struct {
	kind   string // deliver actor group event
	stream *Stream
	dir    Dir
	actor  *Actor
	group  int
	event  int
	park   *parkedYield
}

func (w *World) deliveredCount() int {
	n := 0
	for _, f := range w.net.Frames() {
		if f.Delivered >= 0 {
			n++
		}
	}
	return n
}

// enabledActions lists the enabled actions in canonical order.
func (w *World) enabledActions() (acts []action, forced *action) {
	delivered := w.deliveredCount()
	w.mu.Lock()
	step := w.step
	for i, ev := range w.c.Events {
		if w.eventsDone[i] {
			continue
		}
		if ev.AfterEv > 0 {
			if p := ev.AfterEv - 1; p >= i || !w.eventsDone[p] || step < w.tr.Events[p].Fired+ev.After {
				continue
			}
			a := action{kind: "event", event: i}
			w.mu.Unlock()
			return nil, &a
		}
		if (!ev.AtStep && delivered >= ev.After) || (ev.AtStep && step >= ev.After) {
			a := action{kind: "event", event: i}
			w.mu.Unlock()
			return nil, &a
		}
	}
	w.mu.Unlock()
	for _, s := range w.net.Streams() {
		for d := C2S; d <= S2C; d++ {
			if s.Pending(d) > 0 {
				acts = append(acts, action{kind: "deliver", stream: s, dir: d})
			}
		}
	}
	w.mu.Lock()
	for _, p := range w.parked {
		if w.holdParks {
			break
		}
		acts = append(acts, action{kind: "unpark", park: p})
	}
	groups := map[int]bool{}
	for _, a := range w.actors {
		if !w.actorEnabledLocked(a) {
			continue
		}
		if a.group != 0 && a.cur == nil {
			// first op of a grouped starter: all members of the group start together
			if !groups[a.group] {
				groups[a.group] = true
				acts = append(acts, action{kind: "group", group: a.group})
			}
			continue
		}
		acts = append(acts, action{kind: "actor", actor: a})
	}
	w.mu.Unlock()
	return acts, nil
}

func (w *World) apply(a action) {
	w.nextStep()
	switch a.kind {
	case "deliver":
		a.stream.Deliver(a.dir)
	case "actor":
		w.dispatch(a.actor)
	case "group":
		w.mu.Lock()
		var members []*Actor
		for _, x := range w.actors {
			if x.group == a.group && x.cur == nil && w.actorEnabledLocked(x) {
				members = append(members, x)
			}
		}
		w.mu.Unlock()
		var ops []*opSpec
		for _, m := range members {
			w.mu.Lock()
			op := w.pullOpLocked(m)
			w.mu.Unlock()
			ops = append(ops, op)
		}
		for i, m := range members {
			if ops[i] != nil {
				m.cmd <- ops[i]
			}
		}
	case "event":
		w.fire(a.event)
	case "unpark":
		w.mu.Lock()
		for i, p := range w.parked {
			if p == a.park {
				w.parked = append(w.parked[:i], w.parked[i+1:]...)
				close(p.ch)
				break
			}
		}
		w.mu.Unlock()
	}
	w.settle()
}

func (w *World) runTape() {
	maxSteps := len(w.c.Tape)
	for i := 0; i < maxSteps; i++ {
		acts, forced := w.enabledActions()
		if forced != nil {
			w.apply(*forced)
			i--
			continue
		}
		if len(acts) == 0 {
			break
		}
		v := w.c.Tape[i]
		if v < 0 {
			v = -v
		}
		w.apply(acts[v%len(acts)])
		w.tr.TapeUsed = i + 1
		if n := w.c.Cfg.DrainEvery; n > 0 && i%n == n-1 {
			w.drainDeliveries()
			w.snapshot("idle")
		} else if i%16 == 15 {
			w.snapshot("idle")
		}
	}
}

// drain applies enabled actions fairly until nothing is enabled.
func (w *World) drain() {
	for iter := 0; iter < 200000; iter++ {
		acts, forced := w.enabledActions()
		if forced != nil {
			w.apply(*forced)
			continue
		}
		if len(acts) == 0 {
			w.noteLiveActors()
			return
		}
		// deliveries first (all of them), then one step of every enabled actor
		for _, a := range acts {
			if a.kind == "deliver" {
				for a.stream.Pending(a.dir) > 0 {
					w.apply(a)
				}
			}
		}
		for _, a := range acts {
			if a.kind != "deliver" {
				if a.kind == "actor" {
					w.mu.Lock()
					ok := w.actorEnabledLocked(a.actor)
					w.mu.Unlock()
					if !ok {
						continue
					}
				}
				w.apply(a)
			}
		}
	}
	w.tr.Notes = append(w.tr.Notes, "drain did not converge")
	w.tr.Aborted = "drain did not converge"
}

// noteLiveActors records, when a drain ends, which actors have not finished and why they were not enabled
// (diagnostics for the rare case of a drain that ends early).
func (w *World) noteLiveActors() {
	w.mu.Lock()
	defer w.mu.Unlock()
	var live []string
	for _, a := range w.actors {
		if a.done {
			continue
		}
		en := a.enabled == nil || a.enabled()
		live = append(live, fmt.Sprintf("%s(busy=%v stalled=%v enabled=%v)", a.name, a.busy, a.stalled, en))
	}
	if len(live) > 0 {
		w.tr.Notes = append(w.tr.Notes, fmt.Sprintf("drain ended at step %d in phase %s with live actors: %s", w.step, w.phase, strings.Join(live, " ")))
	}
}

func (w *World) releaseStalled() {
	w.mu.Lock()
	w.released = true
	for _, a := range w.actors {
		a.stalled = false
	}
	w.mu.Unlock()
}

func (w *World) markDone(a *Actor) {
	w.mu.Lock()
	a.done = true
	w.mu.Unlock()
}

func (w *World) serverAt(i int) *revServer {
	w.mu.Lock()
	defer w.mu.Unlock()
	if i >= 0 && i < len(w.servers) {
		return w.servers[i]
	}
	return nil
}

func (w *World) allServers() []*revServer {
	w.mu.Lock()
	defer w.mu.Unlock()
	return append([]*revServer(nil), w.servers...)
}

// stall reports whether an actor created now should start stalled.
func (w *World) stall(flag bool) bool {
	w.mu.Lock()
	defer w.mu.Unlock()
	return flag && !w.released
}

// fire executes event i.
func (w *World) fire(i int) {
	ev := w.c.Events[i]
	rec := w.tr.Events[i]
	w.mu.Lock()
	w.eventsDone[i] = true
	rec.Fired = w.step
	w.mu.Unlock()
	rec.FramesDelivered = w.deliveredCount()
	for _, st := range w.net.Streams() {
		for d := C2S; d <= S2C; d++ {
			if st.BlockedOnCapacity(d) {
				rec.CapBlocked[d] = true
			}
		}
	}
	tun := func() *tunnelState {
		w.mu.Lock()
		defer w.mu.Unlock()
		if ev.Target >= 0 && ev.Target < len(w.tunnels) {
			return w.tunnels[ev.Target]
		}
		return nil
	}
	async := func(f func()) {
		go func() {
			w.eventCall(rec, f)
			w.mu.Lock()
			if !w.frozen {
				rec.Returned = w.step
			}
			w.mu.Unlock()
		}()
	}
	switch ev.Kind {
	case "close_channel", "handler_close":
		if t := tun(); t != nil && t.ch != nil {
			async(t.ch.Close)
		}
	case "cancel_open":
		if t := tun(); t != nil {
			t.cancel()
			rec.Returned = rec.Fired
		}
	case "expire_open":
		if t := tun(); t != nil && !t.expireAt.IsZero() {
			if d := time.Until(t.expireAt); d > 0 {
				w.sleep(d)
			}
			rec.Returned = rec.Fired
		}
	case "break_client", "break_server", "break_both":
		if t := tun(); t != nil && t.carrier != nil {
			t.carrier.Break(ev.Kind != "break_server", ev.Kind != "break_client")
			rec.Returned = rec.Fired
		}
	case "serve_more":
		// one more Serve call on an existing reverse-tunnel server; its carrier stream is delivered by the schedule
		if sv := w.serverAt(ev.Target); sv != nil {
			sv.conn.HoldNew(w.c.Cfg.Cap)
			w.mu.Lock()
			n := len(w.tunnels)
			w.mu.Unlock()
			w.openTunnel(TunnelSpec{Server: ev.Target}, false)
			w.mu.Lock()
			if len(w.tunnels) > n {
				w.tunnels[n].rec.Late = true
			}
			w.mu.Unlock()
			rec.Returned = rec.Fired
		}
	case "stop":
		if sv := w.serverAt(ev.Target); sv != nil {
			async(sv.rs.Stop)
		}
	case "graceful_stop":
		if sv := w.serverAt(ev.Target); sv != nil {
			async(sv.rs.GracefulStop)
		}
	case "initiate_shutdown":
		w.handler.InitiateShutdown()
		rec.Returned = rec.Fired
	case "cancel_rpc":
		w.mu.Lock()
		var r *rpcState
		if ev.Target < len(w.rpcs) {
			r = w.rpcs[ev.Target]
		}
		w.mu.Unlock()
		if r != nil && r.cancel != nil {
			r.cancel()
			rec.Returned = rec.Fired
		} else {
			rec.Note = "rpc not started"
		}
	case "advance":
		w.sleep(time.Duration(ev.Ms) * time.Millisecond)
		rec.Returned = rec.Fired
	case "release":
		w.mu.Lock()
		for _, a := range w.actors {
			if a.rpc == ev.Target {
				a.stalled = false
			}
		}
		w.mu.Unlock()
		rec.Returned = rec.Fired
	}
}

func (w *World) eventCall(rec *EventRec, f func()) {
	defer func() {
		if r := recover(); r != nil {
			w.mu.Lock()
			w.tr.Panics = append(w.tr.Panics, fmt.Sprintf("event %d %s: %v", rec.Idx, rec.Kind, r))
			w.mu.Unlock()
		}
	}()
	f()
}

// probe issues one fresh unary RPC on the default channel and drains: is the tunnel still usable?
func (w *World) probe() {
	pr := &ProbeRec{Code: CodeNil}
	w.mu.Lock()
	// events whose trigger was not reached by the workload itself are off now (the probe's own frames must not trigger them)
	for i := range w.eventsDone {
		w.eventsDone[i] = true
	}
	idx := len(w.rpcs)
	spec := &RPC{Shape: "unary", Req: []int{3}, Resp: []int{5}, Role: "probe"}
	r := &rpcState{idx: idx, spec: spec}
	w.rpcs = append(w.rpcs, r)
	pr.Step = w.step
	w.tr.Probe = pr
	w.mu.Unlock()
	before := len(w.net.Frames())
	a := w.newActor(fmt.Sprintf("c%d.probe", idx), idx, "caller")
	fired := false
	a.next = func() *opSpec {
		if fired {
			return nil
		}
		fired = true
		return &opSpec{kind: "invoke", run: func(rec *OpRec) {
			w.opInvoke(r, rec)
			w.mu.Lock()
			pr.Returned = true
			pr.Code = rec.Code
			pr.Err = rec.Err
			w.mu.Unlock()
		}}
	}
	w.startActor(a)
	w.drain()
	pr.Frames = len(w.net.Frames()) - before
}

// endTunnels ends every tunnel that is still up, the clean way.
func (w *World) endTunnels() {
	w.mu.Lock()
	ts := append([]*tunnelState(nil), w.tunnels...)
	w.mu.Unlock()
	// innermost first
	sort.SliceStable(ts, func(i, j int) bool { return ts[i].inner && !ts[j].inner })
	for _, t := range ts {
		if t.ch == nil {
			continue
		}
		select {
		case <-t.ch.Done():
			continue
		default:
		}
		w.nextStep()
		if t.rec.Kind == "rev" && t.server != nil {
			go t.server.rs.Stop()
		} else {
			go t.ch.Close()
		}
		w.settle()
		w.drainDeliveries()
	}
	// a connection failure is eventually seen by both ends: propagate one-sided breaks
	for _, s := range w.net.Streams() {
		if s.BrokenOneSide() {
			w.nextStep()
			s.Break(true, true)
			w.settle()
		}
	}
	// stop reverse servers that never got a tunnel up, cancel opening contexts
	for _, rs := range w.allServers() {
		go rs.rs.Stop()
	}
	w.settle()
	w.drainDeliveries()
}

func (w *World) drainDeliveries() {
	for iter := 0; iter < 100000; iter++ {
		progressed := false
		for _, s := range w.net.Streams() {
			for d := C2S; d <= S2C; d++ {
				if s.Pending(d) > 0 {
					w.nextStep()
					s.Deliver(d)
					w.settle()
					progressed = true
				}
			}
		}
		if !progressed {
			return
		}
	}
}

// finish takes the final snapshot and tears the harness side down so that the bubble can exit.
func (w *World) finish() {
	w.settle()
	w.snapshot("final")
	// freeze what had not returned by now: everything after this point is the harness's own teardown
	w.mu.Lock()
	for _, o := range w.tr.Ops {
		if o.End < 0 {
			o.PendingAtEnd = true
		}
	}
	for _, e := range w.tr.Events {
		if e.Fired >= 0 && e.Returned < 0 {
			e.PendingAtEnd = true
		}
	}
	for _, inv := range w.tr.Invocations {
		if inv.Returned < 0 {
			inv.Returned = -2 // never returned on its own
		}
		if inv.CtxDoneStep < 0 {
			inv.CtxDoneStep = -2
		}
	}
	w.frozen = true
	w.mu.Unlock()
	w.tr.Frames = w.net.Frames()
	w.tr.Panics = append(w.tr.Panics, w.net.Panics()...)
	w.tr.Misuse = w.net.Misuse()
	w.mu.Lock()
	w.tr.Steps = w.step
	w.mu.Unlock()
	// harness teardown: release everything that is ours
	close(w.quit)
	w.mu.Lock()
	ts := append([]*tunnelState(nil), w.tunnels...)
	rs := append([]*rpcState(nil), w.rpcs...)
	w.mu.Unlock()
	for _, r := range rs {
		if r.cancel != nil {
			r.cancel()
		}
	}
	for _, t := range ts {
		if t.cancel != nil {
			t.cancel()
		}
	}
	for _, s := range w.net.Streams() {
		s.Break(true, true)
	}
	w.capLifted = true
	if w.polling() {
		w.pollQuiescent()
		if _, mb := w.scanNow(); mb > 0 {
			return // leave the bubble; the deadlock panic is recorded by the caller
		}
	}
	for i := 0; i < 50; i++ {
		synctest.Wait()
		if !w.releaseSoftSleeper() {
			break
		}
	}
	time.Sleep(time.Second)
	synctest.Wait()
}

// forcePolling: decide quiescence by run-queue polling (see pollQuiescent) in
// every configuration; VERIF_NO_POLL=1 restores synctest.Wait where possible.
var forcePolling = os.Getenv("VERIF_NO_POLL") == ""

// Progress is bumped at every quiescent point; the watchdog outside the bubble reads it.
var Progress atomic.Int64
