package harness

import (
	"fmt"
	"math"
	"strings"
	"time"

	"pgregory.net/rapid"
)

var timeoutUnits = map[byte]time.Duration{'H': time.Hour, 'M': time.Minute, 'S': time.Second, 'm': time.Millisecond, 'u': time.Microsecond, 'n': time.Nanosecond}

// refDecodeTimeout is the reference decoder written from the gRPC wire specification:
//   Timeout      -> "grpc-timeout" TimeoutValue TimeoutUnit
//   TimeoutValue -> {positive integer as ASCII string of at most 8 digits}
//   TimeoutUnit  -> "H" / "M" / "S" / "m" / "u" / "n"
// wellFormed=false: the header is malformed. overflow=true: well-formed but beyond the representable range (saturates).
func refDecodeTimeout(s string) (d time.Duration, wellFormed, overflow bool) {
	if len(s) < 2 || len(s) > 9 {
		return 0, false, false
	}
	unit, ok := timeoutUnits[s[len(s)-1]]
	if !ok {
		return 0, false, false
	}
	var v uint64
	for i := 0; i < len(s)-1; i++ {
		c := s[i]
		if c < '0' || c > '9' {
			return 0, false, false
		}
		v = v*10 + uint64(c-'0')
	}
	if v > uint64(math.MaxInt64)/uint64(unit) {
		return time.Duration(math.MaxInt64), true, true
	}
	return time.Duration(v) * unit, true, false
}

// grpcGoDecodeTimeout is a copy of grpc-go's internal/transport decodeTimeout, used only to cross-check the reference decoder.
func grpcGoDecodeTimeout(s string) (time.Duration, bool) {
	size := len(s)
	if size < 2 {
		return 0, false
	}
	if size > 9 {
		return 0, false
	}
	unit, ok := timeoutUnits[s[size-1]]
	if !ok {
		return 0, false
	}
	var t uint64
	for _, c := range []byte(s[:size-1]) {
		if c < '0' || c > '9' {
			return 0, false
		}
		t = t*10 + uint64(c-'0')
	}
	const maxHours = math.MaxInt64 / uint64(time.Hour)
	if unit == time.Hour && t > maxHours {
		return time.Duration(math.MaxInt64), true
	}
	return unit * time.Duration(t), true
}

func genTimeoutValue(t *rapid.T, label string) string {
	unit := rapid.SampledFrom([]string{"H", "M", "S", "m", "u", "n", "H", "M", "S", "m", "u", "n", "s", "h", "x", "", "µ", "SS"}).Draw(t, label+".unit")
	var digits string
	switch rapid.IntRange(0, 9).Draw(t, label+".kind") {
	case 0, 1, 2:
		digits = fmt.Sprint(rapid.IntRange(0, 99999999).Draw(t, label+".n"))
	case 3:
		// boundary around int64 overflow for this unit
		u, ok := timeoutUnits[(unit + "S")[0]]
		if !ok {
			u = time.Second
		}
		limit := uint64(math.MaxInt64) / uint64(u)
		digits = fmt.Sprint(limit + uint64(rapid.IntRange(-1, 1).Draw(t, label+".delta")))
	case 4:
		digits = rapid.SampledFrom([]string{"99999999", "100000000", "099999999", "00000001", "000000001", "0", "00", "2562047", "2562048", "153722867", "9223372036", "9223372037", "18446744073709551615", "18446744073709551616", "9223372036854775807", "9223372036854775808"}).Draw(t, label+".boundary")
	case 5:
		digits = rapid.StringMatching(`[0-9]{1,20}`).Draw(t, label+".digits")
	case 6:
		digits = rapid.SampledFrom([]string{"+5", "-5", "-1", "+0", " 5", "5 ", "5.0", "1e3", "0x10", "1_0", "５", "", "٣"}).Draw(t, label+".odd")
	case 7:
		digits = strings.Repeat("0", rapid.IntRange(0, 10).Draw(t, label+".zeros")) + fmt.Sprint(rapid.IntRange(0, 999).Draw(t, label+".n2"))
	default:
		digits = fmt.Sprint(rapid.IntRange(0, 9999).Draw(t, label+".n3"))
	}
	return digits + unit
}

func genC18(t *rapid.T) *Case {
	c := &Case{Prop: "c18"}
	c.Cfg = Config{Dir: rapid.SampledFrom([]string{"fwd", "rev"}).Draw(t, "dir"), ClientFC: "on", ServerFC: "on"}
	n := rapid.IntRange(1, 3).Draw(t, "nrpcs")
	for i := 0; i < n; i++ {
		r := RPC{Shape: rapid.SampledFrom([]string{"unary", "unary", "bidi"}).Draw(t, fmt.Sprintf("r%d.shape", i)), Req: []int{3}, Resp: []int{5}, Role: "timeout"}
		if r.Shape == "bidi" {
			r.HOps = []MDOp{{Kind: "send", Idx: 0}}
		}
		nv := rapid.SampledFrom([]int{1, 1, 1, 2, 3, 0}).Draw(t, fmt.Sprintf("r%d.nvals", i))
		for j := 0; j < nv; j++ {
			r.GrpcTimeout = append(r.GrpcTimeout, genTimeoutValue(t, fmt.Sprintf("r%d.v%d", i, j)))
		}
		if nv == 0 {
			r.GrpcTimeoutNoValues = true // the key is present with an empty value list: no header value at all
		}
		c.RPCs = append(c.RPCs, r)
	}
	// a baseline RPC without the header: it must have no deadline
	c.RPCs = append(c.RPCs, RPC{Shape: "unary", Req: []int{3}, Resp: []int{5}, Role: "baseline"})
	c.Tape = genTape(t, 0, 30)
	return c
}

const hundredYears = 100 * 365 * 24 * time.Hour

func monC18(c *Case, tr *Trace) []Violation {
	var vs []Violation
	add := func(class string, step int, f string, a ...any) {
		vs = append(vs, Violation{Prop: "C18", Class: class, Step: step, Details: fmt.Sprintf(f, a...)})
	}
	for _, p := range tr.Panics {
		add("panic", 0, "%s", p)
	}
	for i := range c.RPCs {
		sp := &c.RPCs[i]
		var inv *Invocation
		for _, x := range tr.Invocations {
			if x.RPC == i {
				inv = x
			}
		}
		if inv == nil {
			continue
		}
		anyWell, anyMal := false, false
		var exact []time.Duration
		far := false
		for _, v := range sp.GrpcTimeout {
			v = decStr(v)
			d, ok, ovf := refDecodeTimeout(v)
			// guard the oracle itself: the reference decoder must agree with grpc-go's
			gd, gok := grpcGoDecodeTimeout(v)
			if gok != ok || (ok && !ovf && gd != d) || (ok && ovf && gd < hundredYears) {
				add("oracle_disagreement", 0, "reference decoder and grpc-go's decoder disagree on %q: (%v,%v,%v) vs (%v,%v)", v, d, ok, ovf, gd, gok)
			}
			switch {
			case !ok:
				anyMal = true
			case ovf:
				anyWell, far = true, true
			default:
				anyWell = true
				exact = append(exact, d)
			}
		}
		desc := fmt.Sprintf("rpc %d with grpc-timeout %q: handler deadline=%v (in %v)", i, sp.GrpcTimeout, inv.HasDeadline, time.Duration(inv.DeadlineNs))
		if !inv.HasDeadline {
			if anyWell && !anyMal && !far {
				add("timeout_ignored", inv.Step, "%s; want exactly %v", desc, exact)
			}
			continue
		}
		got := time.Duration(inv.DeadlineNs)
		switch {
		case !anyWell:
			add("malformed_timeout_shortens_deadline", inv.Step, "%s; the header is malformed under the gRPC specification, so the handler must have no deadline", desc)
		default:
			ok := false
			for _, d := range exact {
				if got == d {
					ok = true
				}
			}
			if far && got > hundredYears {
				ok = true
			}
			if !ok {
				class := "wrong_deadline"
				if far && len(exact) == 0 {
					class = "overflowing_timeout_wraps"
				}
				add(class, inv.Step, "%s; want exactly one of %v (saturating beyond the representable range: %v)", desc, exact, far)
			}
		}
	}
	return vs
}

func ntC18(c *Case, tr *Trace) bool {
	for _, r := range c.RPCs {
		for _, v := range r.GrpcTimeout {
			if _, ok, ovf := refDecodeTimeout(v); !ok || ovf || len(v) >= 9 {
				return true
			}
		}
	}
	return false
}

func labelsC18(c *Case, tr *Trace) []string {
	var ls []string
	for _, r := range c.RPCs {
		for _, v := range r.GrpcTimeout {
			_, ok, ovf := refDecodeTimeout(v)
			switch {
			case !ok:
				ls = append(ls, "malformed")
			case ovf:
				ls = append(ls, "overflow")
			default:
				ls = append(ls, "wellformed/"+v[len(v)-1:])
			}
		}
		if len(r.GrpcTimeout) > 1 {
			ls = append(ls, "repeated_header")
		}
	}
	return ls
}
