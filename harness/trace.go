package harness

import (
	"fmt"
	"strings"
)

// OpRec records one application-level operation (caller side, handler side or control).
type OpRec struct {
	Seq   int    `json:"seq"`
	Actor string `json:"actor"`
	RPC   int    `json:"rpc"`  // -1: none
	Side  string `json:"side"` // caller handler ctl
	Kind  string `json:"kind"`
	Idx   int    `json:"idx,omitempty"`
	Start int    `json:"start"`
	End   int    `json:"end"` // -1: still pending
	Phase string `json:"phase,omitempty"` // phase in which it ended

	Err  string `json:"err,omitempty"`
	Code int    `json:"code"` // -1: nil error; -2: io.EOF; otherwise the grpc status code of the error
	Msg  string `json:"msg,omitempty"` // status message when the error is a status
	NDetails int `json:"ndetails,omitempty"`
	Details []string `json:"details,omitempty"`

	Payload *PayloadObs         `json:"payload,omitempty"`
	MD      map[string][]string `json:"md,omitempty"`   // header op result / observed metadata
	HasMD   bool                `json:"has_md,omitempty"`
	// Terminal recv / invoke: what was readable immediately afterwards, in the same actor step
	TrailerNow    map[string][]string `json:"trailer_now,omitempty"`
	TrailerOptNow map[string][]string `json:"trailer_opt_now,omitempty"`
	HeaderOptNow  map[string][]string `json:"header_opt_now,omitempty"`
	HeaderNow     map[string][]string `json:"header_now,omitempty"`
	HeaderNowErr  string              `json:"header_now_err,omitempty"`
	HeaderNowSet  bool                `json:"header_now_set,omitempty"`
	PendingAtEnd  bool                `json:"pending_at_end,omitempty"`
	Abandoned     bool                `json:"abandoned,omitempty"` // handler returned while this op was in progress
	CapBlocked    bool                `json:"cap_blocked,omitempty"` // was parked on the carrier's capacity bound at some quiescent point
	Extra         map[string]string   `json:"extra,omitempty"`
}

const (
	CodeNil = -1
	CodeEOF = -2
)

// Pending: the op had not returned when the simulation took its final snapshot (the harness's own teardown,
// which cancels every context afterwards so that the bubble can exit, does not count as returning).
func (o *OpRec) Pending() bool { return o.End < 0 || o.PendingAtEnd }
func (o *OpRec) OKErr() bool   { return o.Code == CodeNil }

func (o *OpRec) String() string {
	res := "pending"
	if !o.Pending() {
		switch o.Code {
		case CodeNil:
			res = "ok"
		case CodeEOF:
			res = "EOF"
		default:
			res = fmt.Sprintf("code=%d(%s)", o.Code, o.Err)
		}
	}
	s := fmt.Sprintf("[%d..%d] %s %s#%d -> %s", o.Start, o.End, o.Actor, o.Kind, o.Idx, res)
	if o.Payload != nil {
		s += " " + o.Payload.String()
	}
	return s
}

// Invocation: one entry of the handler-side invocation log.
type Invocation struct {
	Step     int    `json:"step"`
	Method   string `json:"method"`   // which handler ran (shape name)
	Tag      int    `json:"tag"`      // RPC tag found in the request metadata (-1: none)
	RPC      int    `json:"rpc"`      // RPC it was matched to (-1: none)
	Instance int    `json:"instance"` // serving instance (reverse server index; 0 for forward)
	MD       map[string][]string `json:"md"`
	HasDeadline bool  `json:"has_deadline,omitempty"`
	DeadlineNs  int64 `json:"deadline_ns,omitempty"` // deadline minus virtual now at invocation
	CtxDoneStep int   `json:"ctx_done_step"`          // step at which the handler context ended (-1: never)
	CtxErr      string `json:"ctx_err,omitempty"`
	Returned    int   `json:"returned"` // step at which the handler returned (-1: never)
	TunnelMD    map[string][]string `json:"tunnel_md,omitempty"`
	HasTunnelMD bool `json:"has_tunnel_md,omitempty"`
	Peer        string `json:"peer,omitempty"`
	CtxVal      string `json:"ctxval,omitempty"`
	TunnelMDAfterMut map[string][]string `json:"tunnel_md_after_mut,omitempty"`
}

// Snapshot: the observable state at a quiescent point.
type Snapshot struct {
	Step      int      `json:"step"`
	Phase     string   `json:"phase"`
	LibGoroutines int  `json:"lib_goroutines"`
	Carrier   int      `json:"carrier_goroutines"` // goroutines running a tunnel-service handler / Serve call
	App       int      `json:"app_goroutines"`     // harness goroutines inside (or called from) the library
	Stacks    []string `json:"stacks,omitempty"`
	ClientTables [][]int64 `json:"client_tables"` // per tunnel: ids in the RPC-client end's table (nil: unknown)
	ServerTables [][]int64 `json:"server_tables"` // live tunnel servers, in creation order
	Registry  int      `json:"registry"`       // len(AllReverseTunnels())
	KeyReady  []string `json:"key_ready,omitempty"` // affinity keys k for which KeyAsChannel(k).Ready() is true
	RegistryDone int   `json:"registry_done"`  // of those, how many are already done
	PendingOps []string `json:"pending_ops,omitempty"`
	Parked    int      `json:"parked,omitempty"` // goroutines held at a park-type yield point when the snapshot was taken
	NowNs     int64    `json:"now_ns"`
	InFlight  int      `json:"in_flight"` // carrier items not yet delivered
}

type TunnelRec struct {
	Idx      int    `json:"idx"`
	Kind     string `json:"kind"` // fwd rev nested
	Carrier  int    `json:"carrier"` // carrier stream index (-1 for nested)
	OpenErr  string `json:"open_err,omitempty"`
	Opened   bool   `json:"opened"`
	// RPC-client end (TunnelChannel)
	DoneStep int    `json:"done_step"` // step at which Done() was observed closed (-1: never)
	ChanErr  string `json:"chan_err,omitempty"`
	ChanErrNil bool `json:"chan_err_nil"`
	// RPC-server end
	ServeReturned int    `json:"serve_returned"` // step (-1: never): Serve() for reverse, the tunnel-service handler for forward
	ServeErr      string `json:"serve_err,omitempty"`
	ServeErrNil   bool   `json:"serve_err_nil"`
	ServeStarted  bool   `json:"serve_started"`
	ServeCalled   int    `json:"serve_called,omitempty"` // reverse: step at which Serve was called (0: during set-up)
	Late          bool   `json:"late,omitempty"`         // opened by a serve_more event during the run
	OpenCb, CloseCb int  `json:"-"`
	Callbacks []string `json:"callbacks,omitempty"` // "open@step", "close@step"
	Revision  int32 `json:"revision"` // negotiated (as observed on new_stream frames; -1 unknown)
}

type EventRec struct {
	Idx   int    `json:"idx"`
	Kind  string `json:"kind"`
	Fired int    `json:"fired"` // step (-1 never)
	Returned int `json:"returned"` // step at which the call returned (-1 pending)
	PendingAtEnd bool `json:"pending_at_end,omitempty"` // the call had not returned at the final snapshot
	FramesDelivered int `json:"frames_delivered"`
	CapBlocked [2]bool `json:"cap_blocked,omitempty"` // some carrier SendMsg was parked on the capacity bound when the event fired, per direction (C2S, S2C)
	Note string `json:"note,omitempty"`
}

// ProbeRec: a fresh unary RPC issued on the default channel after the run was drained (tunnel liveness).
type ProbeRec struct {
	Step     int    `json:"step"`
	Returned bool   `json:"returned"`
	Code     int    `json:"code"`
	Err      string `json:"err,omitempty"`
	Frames   int    `json:"frames"` // carrier frames emitted because of the probe
}

// RegObs: what one operation of a registry history observed.
type RegObs struct {
	Op       int    `json:"op"`
	Kind     string `json:"kind"`
	Step     int    `json:"step"`
	Returned int    `json:"returned"` // step at which the call returned (-1: still blocked at the end)
	Err      string `json:"err,omitempty"`
	Code     int    `json:"code"`
	Bool     bool   `json:"bool,omitempty"`     // ready
	Instance int    `json:"instance,omitempty"` // rpc: which reverse server instance (= tunnel) served it (-1 none)
	All      []int  `json:"all,omitempty"`      // all: tunnel indexes listed
	AllDone  int    `json:"all_done,omitempty"` // all: how many of the listed channels are already done
	Tunnel   int    `json:"tunnel,omitempty"`
	Parked   bool   `json:"parked,omitempty"` // a registration step was parked at a yield point when the op's settle ended
	RetOp    int      `json:"ret_op"` // wait: index of the operation during which it was seen to return (-1 never; len(ops) = in the final time advance)
	ParkedAt []string `json:"parked_at,omitempty"`
	T        []TunObs `json:"t,omitempty"` // facts about every tunnel at the quiescent point after the op
	VMs      int64    `json:"vms,omitempty"` // virtual milliseconds since the run started
}

// TunObs: what the harness knows about one reverse tunnel's life cycle, independent of the registry.
type TunObs struct {
	Started     bool `json:"started,omitempty"`      // the OpenReverseTunnel handler was started by the carrier
	OpenCbEnd   bool `json:"open_cb_end,omitempty"`  // the open callback has returned (both registration steps precede it)
	CloseTrig   bool `json:"close_trig,omitempty"`   // some close of this tunnel has been started
	HandlerDone bool `json:"handler_done,omitempty"` // the OpenReverseTunnel handler has returned
}

type YieldRec struct {
	Point string `json:"point"`
	Occ   int    `json:"occ"`
	Step  int    `json:"step"`
}

// Trace is everything recorded during one run.
type Trace struct {
	Ops         []*OpRec      `json:"ops"`
	Frames      []*FrameRec   `json:"-"`
	Invocations []*Invocation `json:"invocations"`
	Snapshots   []*Snapshot   `json:"snapshots"`
	Tunnels     []*TunnelRec  `json:"tunnels"`
	Events      []*EventRec   `json:"events"`
	Yields      []YieldRec    `json:"yields,omitempty"`
	Panics      []string      `json:"panics,omitempty"`
	Steps       int           `json:"steps"`
	TapeUsed    int           `json:"tape_used"`
	PhaseStart  map[string]int `json:"phase_start"`
	Notes       []string      `json:"notes,omitempty"`
	Labels      map[string]int `json:"labels,omitempty"`
	Probe       *ProbeRec     `json:"probe,omitempty"`
	Fcx         *FcxResult    `json:"fcx,omitempty"`
	Par         *ParResult    `json:"par,omitempty"`
	StressReg   *StressRegResult `json:"stress_reg,omitempty"`
	Reg         []*RegObs     `json:"reg,omitempty"`
	Deadlock    string        `json:"deadlock,omitempty"` // bubble deadlock panic text on exit
	Misuse      []string      `json:"misuse,omitempty"` // concurrent-use violations the library committed against carrier streams
	Aborted     string        `json:"aborted,omitempty"`
	AllocBytes  uint64        `json:"alloc_bytes,omitempty"` // heap bytes allocated by the whole process while the case ran
}

func (t *Trace) label(l string) {
	if t.Labels == nil {
		t.Labels = map[string]int{}
	}
	t.Labels[l]++
}

// Violation is an oracle failure.
type Violation struct {
	Prop    string `json:"prop"`
	Class   string `json:"class"`
	Step    int    `json:"step"`
	Details string `json:"details"`
	Attrs   map[string]string `json:"attrs,omitempty"`
}

func (v Violation) String() string {
	return fmt.Sprintf("%s/%s @%d: %s", v.Prop, v.Class, v.Step, v.Details)
}

// Excerpt renders a compact, human-readable trace.
func (t *Trace) Excerpt(max int) string {
	var sb strings.Builder
	type ev struct {
		step int
		ord  int
		s    string
	}
	var evs []ev
	for _, f := range t.Frames {
		evs = append(evs, ev{f.Step, f.Seq*2 + 1, fmt.Sprintf("  frame#%d car%d %s dlv@%d rcv@%d %s %s", f.Seq, f.Stream, f.Dir, f.Delivered, f.Received, f.F.String(), f.SendErr)})
	}
	for _, o := range t.Ops {
		evs = append(evs, ev{o.Start, o.Seq * 2, "  op " + o.String()})
	}
	// stable by step
	for i := 1; i < len(evs); i++ {
		for j := i; j > 0 && (evs[j].step < evs[j-1].step); j-- {
			evs[j], evs[j-1] = evs[j-1], evs[j]
		}
	}
	for i, e := range evs {
		if i >= max {
			fmt.Fprintf(&sb, "  ... %d more\n", len(evs)-max)
			break
		}
		fmt.Fprintf(&sb, "%4d %s\n", e.step, e.s)
	}
	for _, inv := range t.Invocations {
		fmt.Fprintf(&sb, "  invocation step=%d method=%s tag=%d rpc=%d inst=%d ctxdone=%d ret=%d\n", inv.Step, inv.Method, inv.Tag, inv.RPC, inv.Instance, inv.CtxDoneStep, inv.Returned)
	}
	for _, tu := range t.Tunnels {
		fmt.Fprintf(&sb, "  tunnel %d %s opened=%v done@%d err=%q serve@%d serveErr=%q cb=%v\n", tu.Idx, tu.Kind, tu.Opened, tu.DoneStep, tu.ChanErr, tu.ServeReturned, tu.ServeErr, tu.Callbacks)
	}
	for _, e := range t.Events {
		fmt.Fprintf(&sb, "  event %d %s fired@%d returned@%d %s\n", e.Idx, e.Kind, e.Fired, e.Returned, e.Note)
	}
	for _, p := range t.Panics {
		fmt.Fprintf(&sb, "  PANIC %s\n", p)
	}
	fmt.Fprintf(&sb, "  phases %v\n", t.PhaseStart)
	for _, n := range t.Notes {
		if len(n) > 600 {
			n = n[:600]
		}
		fmt.Fprintf(&sb, "  note %s\n", n)
	}
	return sb.String()
}
