package harness

import "fmt"

// monRawServer: oracle for raw-server runs (raw network server vs the real tunnel client).
func monRawServer(prop string) Monitor {
	return func(c *Case, tr *Trace) []Violation {
		var vs []Violation
		raw := c.Raw
		if raw == nil || raw.Role != "server" || tr.Aborted != "" {
			return nil
		}
		shared := map[string]bool{"conforming_rpc_harmed": true, "stream_level_violation_killed_tunnel": true, "panic": true, "call_never_returned": true}
		add := func(p, class string, step int, f string, a ...any) {
			if p != prop && !(p == "C09" && shared[class] && prop != "C09") {
				return
			}
			vs = append(vs, Violation{Prop: prop, Class: class, Step: step, Details: fmt.Sprintf("deviations %v: ", raw.Dev) + fmt.Sprintf(f, a...)})
		}
		for _, p := range tr.Panics {
			add("C09", "panic", 0, "%s", p)
		}
		tun := tr.Tunnels[0]
		if !tun.Opened {
			return vs // the settings exchange failed: judged by the C11 monitor
		}
		hangup := tr.PhaseStart["end"]
		var hung *Snapshot
		for _, sn := range tr.Snapshots {
			if sn.Phase == "hungup" {
				hung = sn
			}
		}
		// --- nothing hangs, nothing is left after the peer hung up
		for _, o := range tr.Ops {
			if o.Pending() && o.Side == "caller" {
				add("C09", "call_never_returned", o.Start, "caller op %s %s#%d never returned although the peer hung up", o.Actor, o.Kind, o.Idx)
			}
		}
		if tun.DoneStep < 0 {
			add("C09", "endpoint_hung_after_peer_hangup", hangup, "the channel's Done() never closed after the raw server hung up")
		}
		if hung != nil && tun.DoneStep >= 0 && tun.DoneStep <= hung.Step {
			if hung.LibGoroutines != 0 {
				add("C09", "goroutines_left_after_hangup", hung.Step, "%d library goroutines remain after the raw server hung up and the run was drained:\n%s", hung.LibGoroutines, joinStacks(hung.Stacks))
			}
			for ti, tab := range hung.ClientTables {
				if len(tab) > 0 {
					add("C09", "table_entry_left_after_hangup", hung.Step, "tunnel %d client table holds %v after the raw server hung up", ti, tab)
				}
			}
		}
		if tr.Deadlock != "" {
			add("C09", "goroutines_blocked_at_exit", tr.Steps, "%s", tr.Deadlock)
		}
		// ... and nothing is kept for a call that is over: whatever the peer sent, once the caller has been given the RPC's
		// terminal result the endpoint holds no table entry for it at the next quiescent point (long before the peer hangs up)
		ix := buildWireIndex(tr)
		for _, sn := range tr.Snapshots {
			if (sn.Phase != "drain1" && sn.Phase != "drain2") || sn.Parked != 0 || len(sn.ClientTables) == 0 {
				continue
			}
			if tun.DoneStep >= 0 && tun.DoneStep <= sn.Step {
				continue
			}
			for i := range c.RPCs {
				k, ok := ix.keyOf[i]
				if !ok {
					continue
				}
				told := -1
				for _, o := range tr.Ops {
					if o.RPC != i || o.Side != "caller" || o.Pending() {
						continue
					}
					if (o.Kind == "recv" && o.Code != CodeNil) || o.Kind == "invoke" {
						if told < 0 || o.End < told {
							told = o.End
						}
					}
				}
				if told < 0 || told >= sn.Step {
					continue
				}
				for _, id := range sn.ClientTables[0] {
					if id == k.id {
						add("C09", "table_entry_kept_after_call_returned", sn.Step, "stream %d (rpc %d) is still in the client's stream table at the quiescent step %d although its caller was given the RPC's terminal result at step %d: the endpoint keeps state for as long as the peer likes", id, i, sn.Step, told)
					}
				}
			}
		}
		// --- no bloat: memory follows the data that arrived, never the size a peer merely announced
		if tr.AllocBytes > allocBound {
			var m uint64
			for _, rp := range raw.Replies {
				if x := maxAnnounced(rp.Frames); x > m {
					m = x
				}
			}
			add("C09", "announced_size_buffered", tr.Steps, "the run allocated %d MiB of heap although the script carries less than 1 MiB of data (largest announced message size: %d MiB)", tr.AllocBytes>>20, m>>20)
		}
		// --- tunnel-level vs stream-level
		endedEarly := tun.DoneStep >= 0 && tun.DoneStep < hangup
		switch raw.TunnelLevel {
		case "?":
		case "":
			if endedEarly {
				add("C09", "stream_level_violation_killed_tunnel", tun.DoneStep, "only stream-level deviations, yet the channel ended at step %d with %q", tun.DoneStep, tun.ChanErr)
			}
		default:
			// the unsolicited frame for a never-created id must end the tunnel with an error once processed
			processed := false
			for _, f := range tr.Frames {
				if f.F != nil && !f.F.ToServer && f.F.ID >= 1<<40 && f.Received >= 0 {
					processed = true
				}
			}
			if processed {
				if !endedEarly {
					add("C09", "tunnel_level_violation_tolerated", hangup, "a frame for a stream id that was never created was processed but the channel stayed up")
				} else if tun.ChanErrNil {
					add("C09", "tunnel_level_violation_reported_clean", tun.DoneStep, "the channel ended after a frame for a never-created id but Err() is nil")
				}
			}
		}
		if raw.TunnelLevel != "" || endedEarly {
			return vs
		}
		// --- per-RPC outcomes
		for _, ex := range raw.Expect {
			sp := &c.RPCs[ex.Tag]
			var term *OpRec
			okRecvs, badPayload := 0, ""
			for _, o := range tr.Ops {
				if o.RPC != ex.Tag || o.Side != "caller" || o.Pending() {
					continue
				}
				switch o.Kind {
				case "recv":
					if term != nil {
						continue
					}
					if o.Code == CodeNil {
						okRecvs++
						if o.Payload != nil && !o.Payload.OK {
							badPayload = o.Payload.String()
						}
					} else {
						term = o
					}
				case "invoke":
					term = o
					if o.Code == CodeNil {
						okRecvs = 1
						if o.Payload != nil && !o.Payload.OK {
							badPayload = o.Payload.String()
						}
					}
				case "start":
					if o.Code != CodeNil {
						term = o
					}
				}
			}
			if term == nil {
				continue // never started
			}
			termOK := (term.Kind == "recv" && term.Code == CodeEOF) || (term.Kind == "invoke" && term.Code == CodeNil)
			if !respStreams(sp.Shape) && term.Kind == "recv" {
				// a non-streaming response: success means one message was returned; a bare io.EOF is an error to the stub
				termOK = okRecvs >= 1 && term.Code == CodeEOF
			}
			if ex.Clean {
				wantOK := sp.Code == 0
				if wantOK != termOK || (!wantOK && term.Code != sp.Code) {
					add("C09", "conforming_rpc_harmed", term.End, "rpc %d (%s) was answered conformingly with code %d but the caller's terminal result is code %d (%s)", ex.Tag, sp.Shape, sp.Code, term.Code, term.Err)
				}
				if wantOK && (okRecvs != len(sp.Resp) || badPayload != "") {
					add("C09", "conforming_rpc_harmed", term.End, "rpc %d (%s) was answered conformingly with %d messages but the caller obtained %d (%s)", ex.Tag, sp.Shape, len(sp.Resp), okRecvs, badPayload)
				}
				continue
			}
			switch {
			case ex.Code == 8:
				if term.Code != 8 {
					add("C06", "overrun_not_refused", term.End, "rpc %d (%s): the raw server overran the client's window; the caller's terminal result is code %d (%s), want ResourceExhausted", ex.Tag, sp.Shape, term.Code, term.Err)
				}
			case ex.Code == -1:
				if termOK {
					add("C16", "wrong_message_count_accepted", term.End, "rpc %d (%s, %s): the caller of a non-streaming response got success", ex.Tag, sp.Shape, ex.Why)
				}
				// ... and never later either: once the call has failed, a further Recv must not hand over a left-over response
				for _, o := range tr.Ops {
					if o.RPC == ex.Tag && o.Side == "caller" && o.Kind == "recv_again" && !o.Pending() && o.Code == CodeNil {
						add("C16", "wrong_message_count_accepted", o.End, "rpc %d (%s, %s): after the call had failed with code %d, a further Recv returned a message with a nil error", ex.Tag, sp.Shape, ex.Why, term.Code)
					}
				}
			}
		}
		return vs
	}
}
