package harness

import (
	"context"
	"fmt"
	"sort"
	"strings"
	"time"

	"github.com/jhump/grpctunnel"
	"pgregory.net/rapid"
)

var regKeys = []string{"", "a", "b", "a", "b", "c"} // "" = nil key (no x-verif-key metadata)

func genC12(t *rapid.T) *Case {
	c := &Case{Prop: "c12"}
	c.Cfg = Config{Dir: "rev", ClientFC: "on", ServerFC: "on", HasKeyFn: rapid.IntRange(0, 4).Draw(t, "keyfn") > 0}
	n := rapid.IntRange(3, 30).Draw(t, "nops")
	opened := 0
	for i := 0; i < n; i++ {
		kinds := []string{"open", "open", "rpc", "rpc", "rpc", "rpc", "ready", "wait", "all"}
		if opened > 0 {
			kinds = append(kinds, "close_handler", "close_stop", "close_ctx", "close_break", "rpc", "rpc")
		}
		k := rapid.SampledFrom(kinds).Draw(t, fmt.Sprintf("op%d", i))
		op := RegOp{Kind: k}
		via := func() string {
			if rapid.IntRange(0, 2).Draw(t, fmt.Sprintf("op%d.via", i)) == 0 {
				return "all"
			}
			key := rapid.SampledFrom([]string{"a", "b", "c", "<nil>"}).Draw(t, fmt.Sprintf("op%d.key", i))
			return "key:" + key
		}
		switch k {
		case "open":
			op.Key = rapid.SampledFrom(regKeys).Draw(t, fmt.Sprintf("op%d.key", i))
			opened++
		case "close_handler", "close_stop", "close_ctx", "close_break":
			op.Tun = rapid.IntRange(0, opened-1).Draw(t, fmt.Sprintf("op%d.tun", i))
		case "rpc", "ready":
			op.Via = via()
		case "wait":
			op.Via = via()
			op.Ms = int64(rapid.SampledFrom([]int{0, 50, 1000}).Draw(t, fmt.Sprintf("op%d.ms", i)))
		}
		c.Reg = append(c.Reg, op)
		// bursts of RPCs through one pooled channel exercise the round-robin clause
		if k == "rpc" && rapid.IntRange(0, 2).Draw(t, fmt.Sprintf("op%d.burst", i)) == 0 {
			for j := 0; j < rapid.IntRange(1, 5).Draw(t, fmt.Sprintf("op%d.burstn", i)); j++ {
				c.Reg = append(c.Reg, op)
			}
		}
	}
	if rapid.IntRange(0, 2).Draw(t, "yield") == 0 {
		c.Yields = append(c.Yields, Yield{Point: rapid.SampledFrom([]string{"handler.reverse.betweenAdds", "handler.unregister.between"}).Draw(t, "yield.point"),
			Nth: rapid.IntRange(0, 3).Draw(t, "yield.nth"), Kind: rapid.SampledFrom([]string{"gosched", "sleep"}).Draw(t, "yield.kind")})
	}
	return c
}

// runRegistry executes a registry history, one operation at a time to quiescence.
func (w *World) runRegistry() {
	type waiter struct {
		obs  *RegObs
		done chan error
	}
	var waiters []*waiter
	pollWaiters := func() {
		for _, wt := range waiters {
			if wt.obs.Returned >= 0 {
				continue
			}
			select {
			case err := <-wt.done:
				wt.obs.Returned = w.curStep()
				setRegErr(wt.obs, err)
			default:
			}
		}
	}
	chanFor := func(via string) grpctunnel.ReverseClientConnInterface {
		if via == "all" || via == "" {
			return w.handler.AsChannel()
		}
		k := strings.TrimPrefix(via, "key:")
		if k == "<nil>" {
			return w.handler.KeyAsChannel(nil)
		}
		return w.handler.KeyAsChannel(k)
	}
	for i, op := range w.c.Reg {
		w.nextStep()
		obs := &RegObs{Op: i, Kind: op.Kind, Step: w.curStep(), Returned: -1, Code: CodeNil, Instance: -1, Tunnel: -1}
		w.tr.Reg = append(w.tr.Reg, obs)
		switch op.Kind {
		case "open":
			w.mu.Lock()
			idx := len(w.tunnels)
			w.mu.Unlock()
			obs.Tunnel = idx
			w.openTunnel(TunnelSpec{Key: op.Key, Server: idx}, false)
			obs.Returned = w.curStep()
		case "close_handler", "close_stop", "close_ctx", "close_break":
			w.mu.Lock()
			var t *tunnelState
			if op.Tun < len(w.tunnels) {
				t = w.tunnels[op.Tun]
			}
			w.mu.Unlock()
			obs.Tunnel = op.Tun
			if t == nil || t.ch == nil {
				obs.Err = "no such tunnel"
				obs.Returned = w.curStep()
				break
			}
			switch op.Kind {
			case "close_handler":
				t.ch.Close()
			case "close_stop":
				t.server.rs.Stop()
			case "close_ctx":
				t.cancel()
			case "close_break":
				if t.carrier != nil {
					t.carrier.Break(true, true)
				}
			}
			obs.Returned = w.curStep()
		case "rpc":
			w.mu.Lock()
			idx := len(w.rpcs)
			r := &rpcState{idx: idx, spec: &RPC{Shape: "unary", Req: []int{3}, Resp: []int{5}, Role: "routed"}}
			w.rpcs = append(w.rpcs, r)
			w.mu.Unlock()
			done := make(chan struct{})
			rec := &OpRec{Seq: -1, Actor: fmt.Sprintf("reg%d", i), RPC: idx, Side: "caller", Kind: "invoke", Code: CodeNil, End: -1}
			go func() {
				defer close(done)
				cc := chanFor(op.Via)
				ctx, opts := w.callCtx(r)
				var resp = msgOf(nil)
				w.appCall(rec, func() {
					setErr(rec, cc.Invoke(ctx, shapeMethod("unary"), msgOf(payload(idx, 'q', 0, 3)), resp, opts...))
				})
				r.cancel()
			}()
			w.settle()
			w.drain() // step the handler's scripted operations to completion
			select {
			case <-done:
				obs.Returned = w.curStep()
				obs.Code, obs.Err = rec.Code, rec.Err
				w.mu.Lock()
				if r.inv != nil {
					obs.Instance = r.inv.Instance
				}
				w.mu.Unlock()
			default:
				obs.Err = "routed RPC did not complete"
			}
		case "ready":
			obs.Bool = chanFor(op.Via).Ready()
			obs.Returned = w.curStep()
		case "wait":
			ctx, cancel := context.WithTimeout(context.Background(), time.Duration(op.Ms)*time.Millisecond)
			_ = cancel
			w.addTimer(time.Now().Add(time.Duration(op.Ms) * time.Millisecond))
			wt := &waiter{obs: obs, done: make(chan error, 1)}
			waiters = append(waiters, wt)
			cc := chanFor(op.Via)
			go func() { wt.done <- cc.WaitForReady(ctx) }()
			if op.Ms == 0 {
				// an already expired context: both arms of the select are ready, either result is legal
			}
		case "all":
			for _, ch := range w.handler.AllReverseTunnels() {
				obs.All = append(obs.All, tunnelIndexOf(ch))
				select {
				case <-ch.Done():
					obs.AllDone++
				default:
				}
			}
			sort.Ints(obs.All)
			obs.Returned = w.curStep()
		}
		w.settle()
		pollWaiters()
		w.mu.Lock()
		obs.Parked = len(w.parked) > 0
		w.mu.Unlock()
	}
	// let pending waits time out
	w.advance(2 * time.Second)
	pollWaiters()
}

func setRegErr(o *RegObs, err error) {
	o.Code = codeOf(err)
	if err != nil {
		o.Err = err.Error()
	}
}

func monC12(c *Case, tr *Trace) []Violation {
	var vs []Violation
	add := func(class string, step int, f string, a ...any) {
		vs = append(vs, Violation{Prop: "C12", Class: class, Step: step, Details: fmt.Sprintf(f, a...)})
	}
	if tr.Aborted != "" {
		return nil
	}
	for _, p := range tr.Panics {
		add("panic", 0, "%s", p)
	}
	type tun struct {
		key  string // "<nil>" for the nil key
		open bool
	}
	var model []*tun
	keyOf := func(k string) string {
		if !c.Cfg.HasKeyFn || k == "" {
			return "<nil>"
		}
		return k
	}
	openSet := func(via string) []int {
		var out []int
		for i, t := range model {
			if !t.open {
				continue
			}
			if via == "all" || via == "" || "key:"+t.key == via {
				out = append(out, i)
			}
		}
		return out
	}
	// round robin: per selector, the instances served since the set last changed
	streak := map[string][]int{}
	resetStreaks := func() { streak = map[string][]int{} }
	type pendingWait struct {
		obs *RegObs
		via string
	}
	var waits []pendingWait
	for _, o := range tr.Reg {
		op := c.Reg[o.Op]
		switch op.Kind {
		case "open":
			model = append(model, &tun{key: keyOf(op.Key), open: true})
			resetStreaks()
			// pending waits that match must have been released by now
			for _, pw := range waits {
				if pw.obs.Returned < 0 || pw.obs.Returned > o.Step+1 {
					if len(openSet(pw.via)) > 0 && pw.obs.Code != CodeNil {
						// judged at the end, when its final result is known
					}
				}
			}
		case "close_handler", "close_stop", "close_ctx", "close_break":
			if op.Tun < len(model) {
				model[op.Tun].open = false
			}
			resetStreaks()
		case "all":
			want := openSet("all")
			if fmt.Sprint(want) != fmt.Sprint(append([]int{}, o.All...)) && !(len(want) == 0 && len(o.All) == 0) {
				add("registry_differs_from_open_tunnels", o.Step, "op %d: AllReverseTunnels() lists tunnels %v; the open tunnels are %v", o.Op, o.All, want)
			}
			if o.AllDone > 0 {
				add("registry_lists_finished_tunnel", o.Step, "op %d: AllReverseTunnels() lists %d channel(s) that are already done", o.Op, o.AllDone)
			}
		case "ready":
			want := len(openSet(op.Via)) > 0
			if o.Bool != want {
				add("ready_wrong", o.Step, "op %d: Ready() via %s = %v; open matching tunnels: %v", o.Op, op.Via, o.Bool, openSet(op.Via))
			}
		case "wait":
			set := openSet(op.Via)
			if len(set) > 0 {
				if op.Ms > 0 && (o.Returned != o.Step || o.Code != CodeNil) {
					add("wait_for_ready_blocks_although_ready", o.Step, "op %d: WaitForReady via %s with open tunnels %v returned at step %d with %q", o.Op, op.Via, set, o.Returned, o.Err)
				}
			} else {
				if o.Returned == o.Step && o.Code == CodeNil {
					add("wait_for_ready_returns_although_not_ready", o.Step, "op %d: WaitForReady via %s returned nil at once although no matching tunnel is open", o.Op, op.Via)
				}
				waits = append(waits, pendingWait{o, op.Via})
			}
		case "rpc":
			set := openSet(op.Via)
			switch {
			case len(set) == 0:
				if o.Code != 14 {
					add("rpc_without_tunnel_not_unavailable", o.Step, "op %d: RPC via %s with no matching open tunnel returned code %d (%s), instance %d", o.Op, op.Via, o.Code, o.Err, o.Instance)
				}
			default:
				if o.Code != CodeNil {
					add("routed_rpc_failed", o.Step, "op %d: RPC via %s with open tunnels %v failed: code %d (%s)", o.Op, op.Via, set, o.Code, o.Err)
					break
				}
				ok := false
				for _, i := range set {
					if i == o.Instance {
						ok = true
					}
				}
				if !ok {
					add("rpc_routed_to_wrong_tunnel", o.Step, "op %d: RPC via %s was served by tunnel %d; the open matching tunnels are %v", o.Op, op.Via, o.Instance, set)
				}
				// n consecutive RPCs over a stable set of n tunnels use each exactly once
				s := append(streak[op.Via], o.Instance)
				streak[op.Via] = s
				n := len(set)
				if len(s) >= n {
					seen := map[int]bool{}
					for _, x := range s[len(s)-n:] {
						seen[x] = true
					}
					if len(seen) != n {
						add("round_robin_uneven", o.Step, "op %d: the last %d RPCs via %s over the stable set %v were served by %v", o.Op, n, op.Via, set, s[len(s)-n:])
					}
				}
			}
		}
	}
	// waits that started with an empty set: nil only if a matching tunnel opened later, else the context error
	for _, pw := range waits {
		opened := false
		for j := pw.obs.Op + 1; j < len(c.Reg); j++ {
			if c.Reg[j].Kind == "open" {
				k := keyOf(c.Reg[j].Key)
				if pw.via == "all" || pw.via == "key:"+k {
					opened = true
				}
			}
		}
		op := c.Reg[pw.obs.Op]
		switch {
		case pw.obs.Returned < 0:
			add("wait_for_ready_never_returned", pw.obs.Step, "op %d: WaitForReady via %s (timeout %d ms) never returned", pw.obs.Op, pw.via, op.Ms)
		case pw.obs.Code == CodeNil && !opened:
			add("wait_for_ready_returns_although_not_ready", pw.obs.Returned, "op %d: WaitForReady via %s returned nil although no matching tunnel ever opened afterwards", pw.obs.Op, pw.via)
		}
	}
	// callbacks: exactly open then close per tunnel
	for _, t := range tr.Tunnels {
		if !t.Opened {
			continue
		}
		if len(t.Callbacks) != 2 || !strings.HasPrefix(t.Callbacks[0], "open@") || !strings.HasPrefix(t.Callbacks[1], "close@") {
			add("callbacks_wrong", 0, "tunnel %d produced callbacks %v; want exactly one open followed by one close", t.Idx, t.Callbacks)
		}
	}
	return vs
}

func ntC12(c *Case, tr *Trace) bool {
	// two tunnels share a key and a close happened between routed RPCs
	keys := map[string]int{}
	rpcBefore, closeAfterRPC, rpcAfterClose := false, false, false
	for _, op := range c.Reg {
		switch {
		case op.Kind == "open":
			keys[op.Key]++
		case op.Kind == "rpc":
			rpcBefore = true
			if closeAfterRPC {
				rpcAfterClose = true
			}
		case strings.HasPrefix(op.Kind, "close") && rpcBefore:
			closeAfterRPC = true
		}
	}
	shared := false
	for _, n := range keys {
		if n >= 2 {
			shared = true
		}
	}
	return shared && rpcAfterClose
}

func labelsC12(c *Case, tr *Trace) []string {
	ls := []string{fmt.Sprintf("keyfn=%v", c.Cfg.HasKeyFn)}
	seen := map[string]bool{}
	for _, op := range c.Reg {
		if !seen[op.Kind] {
			seen[op.Kind] = true
			ls = append(ls, "op="+op.Kind)
		}
	}
	for _, y := range tr.Yields {
		ls = append(ls, "yield="+y.Point)
	}
	return ls
}
