package harness

import (
	"context"
	"fmt"
	"sort"
	"strings"
	"time"

	"github.com/jhump/grpctunnel"
	"pgregory.net/rapid"
)

var regKeys = []string{"", "a", "b", "a", "b", "c", "7", "#7"} // "" = nil key (no x-verif-key metadata); "7" is a string, "#7" the int 7

func genC12(t *rapid.T) *Case {
	c := &Case{Prop: "c12"}
	c.Cfg = Config{Dir: "rev", ClientFC: "on", ServerFC: "on", HasKeyFn: rapid.IntRange(0, 4).Draw(t, "keyfn") > 0}
	n := rapid.IntRange(3, 30).Draw(t, "nops")
	opened := 0
	for i := 0; i < n; i++ {
		kinds := []string{"open", "open", "rpc", "rpc", "rpc", "rpc", "ready", "wait", "all"}
		if opened > 0 {
			kinds = append(kinds, "close_handler", "close_stop", "close_ctx", "close_break", "rpc", "rpc")
		}
		k := rapid.SampledFrom(kinds).Draw(t, fmt.Sprintf("op%d", i))
		op := RegOp{Kind: k}
		via := func() string {
			if rapid.IntRange(0, 2).Draw(t, fmt.Sprintf("op%d.via", i)) == 0 {
				return "all"
			}
			key := rapid.SampledFrom([]string{"a", "b", "c", "<nil>", "7", "#7"}).Draw(t, fmt.Sprintf("op%d.key", i))
			return "key:" + key
		}
		switch k {
		case "open":
			op.Key = rapid.SampledFrom(regKeys).Draw(t, fmt.Sprintf("op%d.key", i))
			opened++
		case "close_handler", "close_stop", "close_ctx", "close_break":
			op.Tun = rapid.IntRange(0, opened-1).Draw(t, fmt.Sprintf("op%d.tun", i))
		case "rpc", "ready":
			op.Via = via()
		case "wait":
			op.Via = via()
			op.Ms = int64(rapid.SampledFrom([]int{0, 50, 1000}).Draw(t, fmt.Sprintf("op%d.ms", i)))
		}
		c.Reg = append(c.Reg, op)
		// bursts of RPCs through one pooled channel exercise the round-robin clause
		if k == "rpc" && rapid.IntRange(0, 2).Draw(t, fmt.Sprintf("op%d.burst", i)) == 0 {
			for j := 0; j < rapid.IntRange(1, 5).Draw(t, fmt.Sprintf("op%d.burstn", i)); j++ {
				c.Reg = append(c.Reg, op)
			}
		}
	}
	if rapid.IntRange(0, 2).Draw(t, "yield") == 0 {
		c.Yields = append(c.Yields, Yield{Point: rapid.SampledFrom([]string{"handler.reverse.betweenAdds", "handler.unregister.between"}).Draw(t, "yield.point"),
			Nth: rapid.IntRange(0, 3).Draw(t, "yield.nth"), Kind: rapid.SampledFrom([]string{"gosched", "sleep"}).Draw(t, "yield.kind")})
	}
	return c
}

// regParkPoints: where a registration or de-registration step can be held. The cb.*
// points are inside the application's own callbacks (which may take arbitrarily long),
// the others are the verif yield points between the two-level registry's steps.
var regParkPoints = []string{"cb.affinity", "cb.open", "cb.close", "handler.reverse.betweenAdds", "handler.reverse.beforeKeyAdd", "handler.reverse.beforeKeyAdd", "handler.unregister.between", "client.close.afterTearDown"}

// genC12Win: registry histories in which opens and closes are held half-way (parked)
// while other tunnels open and close and the registry is queried.
func genC12Win(t *rapid.T) *Case {
	c := &Case{Prop: "c12win"}
	c.Cfg = Config{Dir: "rev", ClientFC: "on", ServerFC: "on", HasKeyFn: rapid.IntRange(0, 5).Draw(t, "keyfn") > 0}
	// one to three armed park points; each holds the first 1-3 goroutines that reach it
	np := rapid.IntRange(1, 3).Draw(t, "nparks")
	seen := map[string]bool{}
	for i := 0; i < np; i++ {
		pt := rapid.SampledFrom(regParkPoints).Draw(t, fmt.Sprintf("park%d", i))
		if seen[pt] {
			continue
		}
		seen[pt] = true
		c.Yields = append(c.Yields, Yield{Point: pt, Nth: rapid.IntRange(0, 2).Draw(t, fmt.Sprintf("park%d.nth", i)),
			Repeat: rapid.IntRange(1, 3).Draw(t, fmt.Sprintf("park%d.rep", i)), Kind: "park"})
	}
	keys := []string{"", "a", "a", "b"}
	vias := []string{"all", "key:a", "key:b", "key:<nil>"}
	n := rapid.IntRange(3, 18).Draw(t, "nops")
	opened := 0
	for i := 0; i < n; i++ {
		kinds := []string{"open", "open", "rpc", "ready", "wait", "wait", "all", "unpark"}
		if opened > 0 {
			kinds = append(kinds, "close_handler", "close_stop", "close_ctx", "close_break", "close_break", "unpark")
		}
		k := rapid.SampledFrom(kinds).Draw(t, fmt.Sprintf("op%d", i))
		op := RegOp{Kind: k}
		switch k {
		case "open":
			op.Key = rapid.SampledFrom(keys).Draw(t, fmt.Sprintf("op%d.key", i))
			opened++
		case "close_handler", "close_stop", "close_ctx", "close_break":
			op.Tun = rapid.IntRange(0, opened-1).Draw(t, fmt.Sprintf("op%d.tun", i))
		case "rpc", "ready":
			op.Via = rapid.SampledFrom(vias).Draw(t, fmt.Sprintf("op%d.via", i))
		case "wait":
			op.Via = rapid.SampledFrom(vias).Draw(t, fmt.Sprintf("op%d.via", i))
			op.Ms = 1000
		}
		c.Reg = append(c.Reg, op)
	}
	// release everything, then look at every view of the registry once more
	for i := 0; i < 4; i++ {
		c.Reg = append(c.Reg, RegOp{Kind: "unpark"})
	}
	c.Reg = append(c.Reg, RegOp{Kind: "all"})
	for _, v := range vias {
		c.Reg = append(c.Reg, RegOp{Kind: "ready", Via: v}, RegOp{Kind: "rpc", Via: v})
	}
	return c
}

// runRegistry executes a registry history, one operation at a time to quiescence.
// Closes run on their own goroutines: with an armed park point the closing call
// itself may be the one that is held.
func (w *World) runRegistry() {
	type waiter struct {
		obs  *RegObs
		done chan error
	}
	var waiters []*waiter
	cur := 0 // operation under way
	t0 := time.Now()
	for _, y := range w.c.Yields {
		if y.Kind == "park" {
			w.mu.Lock()
			w.holdParks = true
			w.mu.Unlock()
		}
	}
	pollWaiters := func() {
		for _, wt := range waiters {
			if wt.obs.Returned >= 0 {
				continue
			}
			select {
			case err := <-wt.done:
				wt.obs.Returned = w.curStep()
				wt.obs.RetOp = cur
				setRegErr(wt.obs, err)
			default:
			}
		}
	}
	type pendingRPC struct {
		obs  *RegObs
		rec  *OpRec
		r    *rpcState
		done chan struct{}
	}
	var rpcsPending []*pendingRPC
	pollRPCs := func() {
		for _, pr := range rpcsPending {
			if pr.obs.Returned >= 0 {
				continue
			}
			select {
			case <-pr.done:
				pr.obs.Returned = w.curStep()
				pr.obs.Code, pr.obs.Err = pr.rec.Code, pr.rec.Err
				w.mu.Lock()
				if pr.r.inv != nil {
					pr.obs.Instance = pr.r.inv.Instance
				}
				w.mu.Unlock()
			default:
			}
		}
	}
	chanFor := func(via string) grpctunnel.ReverseClientConnInterface {
		if via == "all" || via == "" {
			return w.handler.AsChannel()
		}
		k := strings.TrimPrefix(via, "key:")
		if k == "<nil>" {
			return w.handler.KeyAsChannel(nil)
		}
		return w.handler.KeyAsChannel(keyVal(k))
	}
	releaseParked := func() {
		w.mu.Lock()
		ps := w.parked
		w.parked = nil
		w.mu.Unlock()
		for _, p := range ps {
			close(p.ch)
		}
	}
	for i, op := range w.c.Reg {
		w.nextStep()
		cur = i
		obs := &RegObs{Op: i, Kind: op.Kind, Step: w.curStep(), Returned: -1, RetOp: -1, Code: CodeNil, Instance: -1, Tunnel: -1}
		w.tr.Reg = append(w.tr.Reg, obs)
		switch op.Kind {
		case "open":
			w.mu.Lock()
			idx := len(w.tunnels)
			w.mu.Unlock()
			obs.Tunnel = idx
			w.openTunnel(TunnelSpec{Key: op.Key, Server: idx}, false)
			obs.Returned = w.curStep()
		case "close_handler", "close_stop", "close_ctx", "close_break":
			w.mu.Lock()
			var t *tunnelState
			if op.Tun < len(w.tunnels) {
				t = w.tunnels[op.Tun]
			}
			var ch grpctunnel.TunnelChannel
			if t != nil {
				ch = t.ch
			}
			w.mu.Unlock()
			obs.Tunnel = op.Tun
			if t == nil {
				obs.Err = "no such tunnel"
				obs.Returned = w.curStep()
				break
			}
			kind := op.Kind
			if kind == "close_handler" && ch == nil {
				kind = "close_break" // the handler side has no channel to close yet
			}
			w.mu.Lock()
			t.closeTrig = true
			w.mu.Unlock()
			go func() {
				switch kind {
				case "close_handler":
					ch.Close()
				case "close_stop":
					t.server.rs.Stop()
				case "close_ctx":
					t.cancel()
				case "close_break":
					if t.carrier != nil {
						t.carrier.Break(true, true)
					} else {
						t.cancel()
					}
				}
			}()
			obs.Returned = w.curStep()
		case "unpark":
			releaseParked()
			obs.Returned = w.curStep()
		case "rpc":
			w.mu.Lock()
			idx := len(w.rpcs)
			r := &rpcState{idx: idx, spec: &RPC{Shape: "unary", Req: []int{3}, Resp: []int{5}, Role: "routed"}}
			w.rpcs = append(w.rpcs, r)
			w.mu.Unlock()
			done := make(chan struct{})
			rec := &OpRec{Seq: -1, Actor: fmt.Sprintf("reg%d", i), RPC: idx, Side: "caller", Kind: "invoke", Code: CodeNil, End: -1}
			go func() {
				defer close(done)
				cc := chanFor(op.Via)
				ctx, opts := w.callCtx(r)
				var resp = msgOf(nil)
				w.appCall(rec, func() {
					setErr(rec, cc.Invoke(ctx, shapeMethod("unary"), msgOf(payload(idx, 'q', 0, 3)), resp, opts...))
				})
				r.cancel()
			}()
			w.settle()
			w.drain() // step the handler's scripted operations to completion
			rpcsPending = append(rpcsPending, &pendingRPC{obs: obs, rec: rec, r: r, done: done})
			pollRPCs()
			if obs.Returned < 0 {
				obs.Err = "routed RPC did not complete"
			}
		case "ready":
			obs.Bool = chanFor(op.Via).Ready()
			obs.Returned = w.curStep()
		case "wait":
			ctx, cancel := context.WithTimeout(context.Background(), time.Duration(op.Ms)*time.Millisecond)
			_ = cancel
			w.addTimer(time.Now().Add(time.Duration(op.Ms) * time.Millisecond))
			wt := &waiter{obs: obs, done: make(chan error, 1)}
			waiters = append(waiters, wt)
			cc := chanFor(op.Via)
			go func() { wt.done <- cc.WaitForReady(ctx) }()
			if op.Ms == 0 {
				// an already expired context: both arms of the select are ready, either result is legal
			}
		case "all":
			for _, ch := range w.handler.AllReverseTunnels() {
				obs.All = append(obs.All, tunnelIndexOf(ch))
				select {
				case <-ch.Done():
					obs.AllDone++
				default:
				}
			}
			sort.Ints(obs.All)
			obs.Returned = w.curStep()
		}
		w.settle()
		w.drain()
		pollWaiters()
		pollRPCs()
		obs.VMs = time.Since(t0).Milliseconds()
		w.mu.Lock()
		obs.Parked = len(w.parked) > 0
		for _, p := range w.parked {
			obs.ParkedAt = append(obs.ParkedAt, p.point)
		}
		for _, t := range w.tunnels {
			to := TunObs{OpenCbEnd: t.openCbEnd, CloseTrig: t.closeTrig}
			if t.carrier != nil {
				to.Started = true
				to.HandlerDone = t.carrier.handlerDone()
			}
			obs.T = append(obs.T, to)
		}
		w.mu.Unlock()
	}
	// nothing stays parked past the history
	w.mu.Lock()
	w.holdParks = false
	w.mu.Unlock()
	for i := 0; i < 8; i++ {
		releaseParked()
		w.settle()
		w.drain()
	}
	// let pending waits time out
	cur = len(w.c.Reg)
	w.advance(2 * time.Second)
	pollWaiters()
	pollRPCs()
}

func setRegErr(o *RegObs, err error) {
	o.Code = codeOf(err)
	if err != nil {
		o.Err = err.Error()
	}
}

// monC12 judges a registry history against a three-valued model of the set of open
// reverse tunnels. A tunnel is IN once its open callback has returned and no close
// has been started; it is OUT before its OpenReverseTunnel handler started and after
// that handler returned; in between (an open or a close is under way, possibly held
// at a park point) the registry may or may not list it and nothing is demanded of it.
func monC12(c *Case, tr *Trace) []Violation {
	var vs []Violation
	add := func(class string, step int, f string, a ...any) {
		vs = append(vs, Violation{Prop: "C12", Class: class, Step: step, Details: fmt.Sprintf(f, a...)})
	}
	if tr.Aborted != "" {
		return nil
	}
	for _, p := range tr.Panics {
		add("panic", 0, "%s", p)
	}
	keyOf := func(k string) string {
		if !c.Cfg.HasKeyFn || k == "" {
			return "<nil>"
		}
		return k
	}
	var keys []string // affinity key of tunnel i
	for _, op := range c.Reg {
		if op.Kind == "open" {
			keys = append(keys, keyOf(op.Key))
		}
	}
	const (
		out = iota
		may
		in
	)
	statusAt := func(j, i int) int {
		if j < 0 || j >= len(tr.Reg) || i >= len(tr.Reg[j].T) {
			return out
		}
		t := tr.Reg[j].T[i]
		switch {
		case !t.Started, t.HandlerDone:
			return out
		case t.OpenCbEnd && !t.CloseTrig:
			return in
		}
		return may
	}
	// status while operation j ran: certain only if the same before and after it
	status := func(j, i int) int {
		a, b := statusAt(j-1, i), statusAt(j, i)
		if a == b {
			return a
		}
		return may
	}
	sets := func(j int, via string) (must, maybe []int) {
		for i := range keys {
			if !(via == "all" || via == "" || "key:"+keys[i] == via) {
				continue
			}
			switch status(j, i) {
			case in:
				must = append(must, i)
			case may:
				maybe = append(maybe, i)
			}
		}
		return
	}
	contains := func(xs []int, x int) bool {
		for _, y := range xs {
			if y == x {
				return true
			}
		}
		return false
	}
	// round robin: per selector, the instances served since the set last changed
	streak := map[string][]int{}
	lastSet := map[string]string{}
	for j, o := range tr.Reg {
		op := c.Reg[o.Op]
		switch op.Kind {
		case "all":
			must, maybe := sets(j, "all")
			for _, i := range must {
				if !contains(o.All, i) {
					add("registry_differs_from_open_tunnels", o.Step, "op %d: AllReverseTunnels() lists tunnels %v; open tunnel %d is missing (open: %v, in transition: %v)", o.Op, o.All, i, must, maybe)
				}
			}
			for _, i := range o.All {
				if !contains(must, i) && !contains(maybe, i) {
					add("registry_differs_from_open_tunnels", o.Step, "op %d: AllReverseTunnels() lists tunnel %d, which is not open (open: %v, in transition: %v)", o.Op, i, must, maybe)
				}
			}
			if o.AllDone > 0 && len(maybe) == 0 {
				add("registry_lists_finished_tunnel", o.Step, "op %d: AllReverseTunnels() lists %d channel(s) that are already done", o.Op, o.AllDone)
			}
		case "ready":
			must, maybe := sets(j, op.Via)
			if len(must) > 0 && !o.Bool {
				add("ready_wrong", o.Step, "op %d: Ready() via %s = false; open matching tunnels: %v", o.Op, op.Via, must)
			}
			if len(must)+len(maybe) == 0 && o.Bool {
				add("ready_wrong", o.Step, "op %d: Ready() via %s = true; no matching tunnel is open or in transition", o.Op, op.Via)
			}
		case "wait":
			must, maybe := sets(j, op.Via)
			immediate := o.RetOp == o.Op && o.Returned >= 0
			if len(must) > 0 && op.Ms > 0 && !(immediate && o.Code == CodeNil) {
				add("wait_for_ready_blocks_although_ready", o.Step, "op %d: WaitForReady via %s with open tunnels %v did not return nil at once (returned during op %d with %q)", o.Op, op.Via, must, o.RetOp, o.Err)
			}
			if len(must)+len(maybe) == 0 && immediate && o.Code == CodeNil {
				add("wait_for_ready_returns_although_not_ready", o.Step, "op %d: WaitForReady via %s returned nil at once although no matching tunnel is open", o.Op, op.Via)
			}
			if o.Returned < 0 {
				add("wait_for_ready_never_returned", o.Step, "op %d: WaitForReady via %s (timeout %d ms) never returned", o.Op, op.Via, op.Ms)
				break
			}
			// it must be released, with nil, by the first later moment at which a matching tunnel is open
			everPossible := len(must)+len(maybe) > 0
			for k := j + 1; k < len(tr.Reg); k++ {
				if o.RetOp >= 0 && o.RetOp < k {
					break
				}
				m, mb := sets(k, op.Via)
				if len(m)+len(mb) > 0 {
					everPossible = true
				}
				if len(m) > 0 && tr.Reg[k].VMs-o.VMs < op.Ms {
					if !(o.RetOp == k && o.Code == CodeNil) {
						add("wait_for_ready_not_released", tr.Reg[k].Step, "op %d: WaitForReady via %s was pending when tunnel(s) %v were open after op %d, yet it returned during op %d with %q", o.Op, op.Via, m, k, o.RetOp, o.Err)
					}
					break
				}
			}
			if o.Code == CodeNil && !everPossible && o.RetOp < len(tr.Reg) {
				add("wait_for_ready_returns_although_not_ready", o.Returned, "op %d: WaitForReady via %s returned nil although no matching tunnel was open at any time until then", o.Op, op.Via)
			}
		case "rpc":
			must, maybe := sets(j, op.Via)
			key := fmt.Sprint(must)
			if len(maybe) > 0 {
				// a tunnel in transition may be picked, may fail the RPC, and perturbs the rotation
				delete(streak, op.Via)
				lastSet[op.Via] = ""
				if o.Instance >= 0 && !contains(must, o.Instance) && !contains(maybe, o.Instance) {
					add("rpc_routed_to_wrong_tunnel", o.Step, "op %d: RPC via %s was served by tunnel %d; open: %v, in transition: %v", o.Op, op.Via, o.Instance, must, maybe)
				}
				break
			}
			if lastSet[op.Via] != key {
				delete(streak, op.Via)
				lastSet[op.Via] = key
			}
			switch {
			case len(must) == 0:
				if o.Code != 14 {
					add("rpc_without_tunnel_not_unavailable", o.Step, "op %d: RPC via %s with no matching open tunnel returned code %d (%s), instance %d", o.Op, op.Via, o.Code, o.Err, o.Instance)
				}
			default:
				if o.Code != CodeNil {
					add("routed_rpc_failed", o.Step, "op %d: RPC via %s with open tunnels %v failed: code %d (%s)", o.Op, op.Via, must, o.Code, o.Err)
					break
				}
				if !contains(must, o.Instance) {
					add("rpc_routed_to_wrong_tunnel", o.Step, "op %d: RPC via %s was served by tunnel %d; the open matching tunnels are %v", o.Op, op.Via, o.Instance, must)
				}
				// n consecutive RPCs over a stable set of n tunnels use each exactly once
				sk := append(streak[op.Via], o.Instance)
				streak[op.Via] = sk
				n := len(must)
				if len(sk) >= n {
					seen := map[int]bool{}
					for _, x := range sk[len(sk)-n:] {
						seen[x] = true
					}
					if len(seen) != n {
						add("round_robin_uneven", o.Step, "op %d: the last %d RPCs via %s over the stable set %v were served by %v", o.Op, n, op.Via, must, sk[len(sk)-n:])
					}
				}
			}
		default:
			// opens, closes and releases change the set: rotations start over
			streak = map[string][]int{}
			lastSet = map[string]string{}
		}
	}
	// callbacks: exactly one open followed by exactly one close per tunnel whose handler ran
	for _, t := range tr.Tunnels {
		n := len(t.Callbacks)
		if n == 0 {
			continue
		}
		if n != 2 || !strings.HasPrefix(t.Callbacks[0], "open@") || !strings.HasPrefix(t.Callbacks[1], "close@") {
			add("callbacks_wrong", 0, "tunnel %d produced callbacks %v; want exactly one open followed by one close", t.Idx, t.Callbacks)
		}
	}
	for _, t := range tr.Tunnels {
		if t.Opened && len(t.Callbacks) == 0 {
			add("callbacks_wrong", 0, "tunnel %d was open yet produced no callbacks", t.Idx)
		}
	}
	return vs
}

func ntC12(c *Case, tr *Trace) bool {
	// two tunnels share a key and a close happened between routed RPCs
	keys := map[string]int{}
	rpcBefore, closeAfterRPC, rpcAfterClose := false, false, false
	for _, op := range c.Reg {
		switch {
		case op.Kind == "open":
			keys[op.Key]++
		case op.Kind == "rpc":
			rpcBefore = true
			if closeAfterRPC {
				rpcAfterClose = true
			}
		case strings.HasPrefix(op.Kind, "close") && rpcBefore:
			closeAfterRPC = true
		}
	}
	shared := false
	for _, n := range keys {
		if n >= 2 {
			shared = true
		}
	}
	return shared && rpcAfterClose
}

func labelsC12(c *Case, tr *Trace) []string {
	ls := []string{fmt.Sprintf("keyfn=%v", c.Cfg.HasKeyFn)}
	seen := map[string]bool{}
	for _, op := range c.Reg {
		if !seen[op.Kind] {
			seen[op.Kind] = true
			ls = append(ls, "op="+op.Kind)
		}
	}
	for _, y := range tr.Yields {
		ls = append(ls, "yield="+y.Point)
	}
	return ls
}

// ntC12Win: some registry query ran while an open or close was held half-way.
func ntC12Win(c *Case, tr *Trace) bool {
	for _, o := range tr.Reg {
		if o.Parked {
			switch o.Kind {
			case "rpc", "ready", "wait", "all":
				return true
			}
		}
	}
	return false
}

func labelsC12Win(c *Case, tr *Trace) []string {
	ls := labelsC12(c, tr)
	seen := map[string]bool{}
	for _, o := range tr.Reg {
		for _, p := range o.ParkedAt {
			if !seen[p] {
				seen[p] = true
				ls = append(ls, "parked="+p)
			}
		}
	}
	// a tunnel whose close began before its registration finished
	doa, waitInClose := false, false
	for j, o := range tr.Reg {
		for _, t := range o.T {
			if t.Started && t.CloseTrig && !t.OpenCbEnd {
				doa = true
			}
		}
		if o.Kind == "wait" && j > 0 {
			for _, t := range tr.Reg[j-1].T {
				if t.Started && t.CloseTrig && !t.HandlerDone {
					waitInClose = true
				}
			}
		}
	}
	if doa {
		ls = append(ls, "closed_before_registered")
	}
	if waitInClose {
		ls = append(ls, "wait_during_close")
	}
	return ls
}
