package harness

import (
	"fmt"
	"strings"

	"pgregory.net/rapid"
)

// causes of tunnel termination per direction
func terminationCauses(dir string) []string {
	switch dir {
	case "rev":
		return []string{"handler_close", "cancel_open", "expire_open", "stop", "break_client", "break_server", "break_both"}
	case "nestedrev":
		return []string{"handler_close", "stop", "break_both", "cancel_open"}
	case "nested":
		return []string{"close_channel", "cancel_open", "break_both"}
	}
	return []string{"close_channel", "cancel_open", "expire_open", "break_client", "break_server", "break_both"}
}

func cleanCause(kind string) bool {
	return kind == "close_channel" || kind == "handler_close" || kind == "stop"
}

// genC04: mixed workload (with some handlers that run until cancelled and some stalled consumers) plus one
// termination cause at a drawn frame boundary.
func genC04(t *rapid.T) *Case {
	c := genMixed(t)
	c.Prop = "c04"
	for i := range c.RPCs {
		r := &c.RPCs[i]
		switch rapid.IntRange(0, 9).Draw(t, fmt.Sprintf("rpc%d.behaviour", i)) {
		case 0:
			r.HWaitCtx = true
		case 1:
			r.StallRecv = true
		case 2:
			r.HStallRecv = true
		case 3:
			r.HWaitRecv = true
		case 4:
			r.CallHeader = 1
		case 5:
			r.NoCloseSend = reqStreams(r.Shape)
			r.HWaitRecv = true
		}
	}
	kind := rapid.SampledFrom(terminationCauses(c.Cfg.Dir)).Draw(t, "cause")
	c.Events = []Event{{Kind: kind, Target: 0, After: rapid.IntRange(0, 80).Draw(t, "k")}}
	if kind == "stop" && rapid.IntRange(0, 2).Draw(t, "graceful_first") == 0 {
		// the documented way to bound a graceful stop: GracefulStop first, Stop later
		c.Events = append(c.Events, Event{Kind: "graceful_stop", Target: 0, After: rapid.IntRange(0, 10).Draw(t, "graceful_at"), AtStep: true})
	}
	if kind == "handler_close" || kind == "close_channel" {
		// for nested topologies the channel RPCs run on is the inner one
		if c.Cfg.Dir == "nested" || c.Cfg.Dir == "nestedrev" {
			c.Events[0].Target = rapid.IntRange(0, 1).Draw(t, "which_tunnel")
		}
	}
	for i := range c.RPCs {
		if c.RPCs[i].Timeout == 0 && rapid.IntRange(0, 3).Draw(t, fmt.Sprintf("rpc%d.nocancel", i)) == 0 {
			c.RPCs[i].NoCancelCtx = true // context.Background(): only the end of the tunnel can end this call
		}
	}
	if c.Cfg.Dir == "fwd" && len(c.Events) == 1 && (kind == "cancel_open" || kind == "expire_open") && rapid.Bool().Draw(t, "close_on_the_way_out") {
		// what an application does once it sees Done() closed (the opening context ended): it calls Close() on its way out
		c.Events = append(c.Events, Event{Kind: "close_channel", Target: 0, AfterEv: 1, After: rapid.IntRange(0, 6).Draw(t, "close_after")})
	}
	return c
}

// expandC04: given a workload and its fault-free run, every cause at every frame boundary.
func expandC04(c *Case, tr *Trace) []*Case {
	delivered := 0
	for _, f := range tr.Frames {
		if f.Delivered >= 0 {
			delivered++
		}
	}
	var out []*Case
	for _, kind := range terminationCauses(c.Cfg.Dir) {
		for k := 0; k <= delivered; k++ {
			v := *c
			v.Prop = "c04_sweep"
			v.Events = []Event{{Kind: kind, Target: 0, After: k}}
			if c.Cfg.Dir == "fwd" && (kind == "cancel_open" || kind == "expire_open") && k%2 == 1 {
				v.Events = append(v.Events, Event{Kind: "close_channel", Target: 0, AfterEv: 1, After: k % 5})
			}
			out = append(out, &v)
		}
	}
	return out
}

// genC04Base: a workload without any event, to be swept by expandC04.
func genC04Base(t *rapid.T) *Case {
	c := genC04(t)
	c.Events = nil
	// keep sweeps affordable
	if len(c.RPCs) > 3 {
		c.RPCs = c.RPCs[:3]
	}
	for i := range c.RPCs {
		trim := func(s []int) []int {
			for j := range s {
				if s[j] > 150000 {
					s[j] = 150000
				}
			}
			return s
		}
		c.RPCs[i].Req, c.RPCs[i].Resp = trim(c.RPCs[i].Req), trim(c.RPCs[i].Resp)
	}
	return c
}

// callerSideLocal: does the cause strike at the end where RPCs are initiated?
func callerSideLocal(dir, kind string) bool {
	switch dir {
	case "fwd":
		return kind == "close_channel" || kind == "cancel_open" || kind == "expire_open" || kind == "break_client" || kind == "break_both"
	case "rev":
		return kind == "handler_close" || kind == "break_server" || kind == "break_both"
	}
	return false
}

func monC04(c *Case, tr *Trace) []Violation {
	var vs []Violation
	if tr.Aborted != "" || len(c.Events) == 0 {
		return nil
	}
	ev, er := c.Events[0], tr.Events[0]
	add := func(class string, step int, f string, a ...any) {
		vs = append(vs, Violation{Prop: "C04", Class: class, Step: step, Details: fmt.Sprintf("cause %s after %d frames (fired at step %d): ", ev.Kind, ev.After, er.Fired) + fmt.Sprintf(f, a...), Attrs: map[string]string{"cause": ev.Kind}})
	}
	var final *Snapshot
	for _, sn := range tr.Snapshots {
		if sn.Phase == "final" {
			final = sn
		}
	}
	if final == nil {
		return nil
	}
	// --- nothing hangs, whatever happened
	for _, o := range tr.Ops {
		if o.Pending() {
			add("operation_never_returned", o.Start, "%s %s#%d (rpc %d) started at step %d never returned", o.Actor, o.Kind, o.Idx, o.RPC, o.Start)
		}
	}
	for _, inv := range tr.Invocations {
		if inv.CtxDoneStep < 0 {
			add("handler_context_never_cancelled", inv.Step, "handler of rpc %d (invoked at step %d) never saw its context end", inv.RPC, inv.Step)
		}
		if inv.Returned < 0 {
			add("handler_never_returned", inv.Step, "handler of rpc %d (invoked at step %d) never returned", inv.RPC, inv.Step)
		}
	}
	for _, e := range tr.Events {
		if e.Fired >= 0 && e.Returned < 0 {
			add("teardown_call_never_returned", e.Fired, "%s fired at step %d never returned", e.Kind, e.Fired)
		}
	}
	if tr.Deadlock != "" {
		add("goroutines_blocked_at_exit", tr.Steps, "%s", tr.Deadlock)
	}
	for _, t := range tr.Tunnels {
		if !t.Opened {
			continue
		}
		if t.DoneStep < 0 {
			add("done_not_closed", final.Step, "tunnel %d (%s): Done() of the RPC-initiating end never closed", t.Idx, t.Kind)
		}
		if t.Kind != "nested" && t.ServeReturned < 0 {
			add("serve_never_returned", final.Step, "tunnel %d (%s): the serving call never returned", t.Idx, t.Kind)
		}
	}
	// ... and not merely because the harness finally ended everything itself: once the cause has struck and the run has been
	// drained, the teardown call has returned, Done is closed and the serving call has returned - before the harness's own
	// teardown (phase "end"). (One-sided carrier breaks reach the other end only then, by construction of the harness.)
	if endStep, ok := tr.PhaseStart["end"]; ok && er.Fired >= 0 && er.Fired < endStep && ev.Kind != "break_client" && ev.Kind != "break_server" &&
		!(ev.Kind == "expire_open" && tr.Labels["advance_skipped"] > 0) && !parkArmed(c) {
		if er.Returned >= endStep || er.PendingAtEnd {
			add("teardown_call_never_returned", er.Fired, "%s fired at step %d had not returned when the drained run reached its end (step %d); it returned only during the harness's own teardown", ev.Kind, er.Fired, endStep)
		}
		for _, t := range tr.Tunnels {
			if !t.Opened || t.Kind == "nested" {
				continue
			}
			if strings.HasPrefix(c.Cfg.Dir, "nested") && ev.Target != t.Idx {
				continue
			}
			if t.Idx != ev.Target && len(c.Cfg.Tunnels) > 1 {
				continue
			}
			if t.DoneStep >= endStep {
				add("done_not_closed", endStep, "tunnel %d (%s): Done() of the RPC-initiating end was still open when the drained run reached its end (step %d), long after %s", t.Idx, t.Kind, endStep, ev.Kind)
			}
			if t.ServeReturned >= endStep {
				add("serve_never_returned", endStep, "tunnel %d (%s): the serving call had not returned when the drained run reached its end (step %d), long after %s", t.Idx, t.Kind, endStep, ev.Kind)
			}
		}
	}
	// ... and not merely because a consumer that had stopped reading finally moved: when the end where the calls are made
	// learns of the tunnel's end through the carrier (reverse tunnel: the handler returns and closes its channel; forward
	// tunnel: the application calls Close() once it sees Done()), every call in flight is over at the drained point that
	// precedes the release of the stalled consumers - with or without flow control.
	if rel, ok := tr.PhaseStart["drain2"]; ok && er.Fired >= 0 && !parkArmed(c) && len(c.Cfg.Tunnels) <= 1 &&
		!(ev.Kind == "expire_open" && tr.Labels["advance_skipped"] > 0) {
		ref := -1
		switch {
		case c.Cfg.Dir == "rev" && (ev.Kind == "cancel_open" || ev.Kind == "expire_open" || ev.Kind == "break_both" || ev.Kind == "break_server"):
			ref = er.Fired
		case c.Cfg.Dir == "fwd" && len(c.Events) > 1 && c.Events[1].Kind == "close_channel" && c.Events[1].AfterEv == 1 && len(tr.Events) > 1:
			if e2 := tr.Events[1]; e2.Fired >= 0 && e2.Returned >= 0 && !e2.PendingAtEnd {
				ref = e2.Returned
			}
		}
		if ref >= 0 && ref <= rel {
			for _, o := range tr.Ops {
				if o.Side != "caller" || o.Start > ref || o.CapBlocked {
					continue
				}
				if o.Pending() || o.End > rel { // (steps after the release are numbered from rel+1)
					add("in_flight_call_outlived_tunnel", o.Start, "%s %s#%d (rpc %d), in flight when the tunnel ended, was still blocked at the drained point before the consumers that had stopped reading were released (step %d)", o.Actor, o.Kind, o.Idx, o.RPC, rel)
				}
			}
		}
	}
	if er.Fired < 0 {
		// the fault never struck: the tunnel was ended cleanly by the harness at the end
		gracefulFired := false
		for i, e := range tr.Events {
			if i < len(c.Events) && c.Events[i].Kind == "graceful_stop" && e.Fired >= 0 {
				gracefulFired = true // a draining server refuses the probe by design
			}
		}
		if tr.Probe != nil && (!tr.Probe.Returned || tr.Probe.Code != CodeNil) && !strings.HasPrefix(c.Cfg.Dir, "nested") && !gracefulFired {
			add("tunnel_unusable_without_fault", tr.Probe.Step, "no fault fired, yet the probe RPC returned=%v code=%d %q", tr.Probe.Returned, tr.Probe.Code, tr.Probe.Err)
		}
		return vs
	}
	if ev.Kind == "expire_open" && tr.Labels["advance_skipped"] > 0 {
		// virtual time could not be advanced to the opening context's deadline (a goroutine the schedule holds at a park point
		// keeps a mutex others wait for): the tunnel did not expire, the harness ended it later - there is no cause to judge by
		return vs
	}
	// --- Err() nil iff clean
	target := ev.Target
	for _, t := range tr.Tunnels {
		if !t.Opened || t.Kind == "nested" || t.DoneStep < 0 {
			continue
		}
		if strings.HasPrefix(c.Cfg.Dir, "nested") && target != t.Idx {
			continue
		}
		if t.Idx != target && len(c.Cfg.Tunnels) > 1 {
			continue
		}
		if ev.Kind == "expire_open" && tr.Labels["advance_skipped"] > 0 {
			// virtual time could not be advanced to the opening context's deadline (a goroutine the schedule holds at a park point
			// keeps a mutex others wait for): the tunnel did not expire, the harness ended it later - no cause to judge by
			continue
		}
		if cleanCause(ev.Kind) {
			if !t.ChanErrNil {
				add("clean_close_reported_error", t.DoneStep, "tunnel %d: Err() = %q after a clean close", t.Idx, t.ChanErr)
			}
			if t.ServeReturned >= 0 && !t.ServeErrNil {
				add("clean_close_reported_error", t.ServeReturned, "tunnel %d: the serving call returned %q after a clean close", t.Idx, t.ServeErr)
			}
		} else {
			if t.ChanErrNil {
				add("failure_reported_as_clean", t.DoneStep, "tunnel %d: Err() = nil although the tunnel ended by %s", t.Idx, ev.Kind)
			}
			if t.ServeReturned >= 0 && t.ServeErrNil {
				add("failure_reported_as_clean", t.ServeReturned, "tunnel %d: the serving call returned nil although the tunnel ended by %s", t.Idx, ev.Kind)
			}
		}
	}
	// --- in-flight calls end non-OK; local causes end them in the same step
	ix := buildWireIndex(tr)
	tunnelDown := strings.HasPrefix(c.Cfg.Dir, "nested") == false || true
	_ = tunnelDown
	for i := range c.RPCs {
		k, onWire := ix.keyOf[i]
		closeRecv := -1
		if onWire {
			for _, f := range ix.byStream[k] {
				if f.F.Kind == "close" && f.Received >= 0 {
					closeRecv = f.Received
				}
			}
		}
		// A call may report success only if its close_stream reached the calling end before that end's channel
		// finished (afterwards every remaining stream is cancelled): anything else was in flight when the tunnel ended.
		callingDone := -1
		for _, t := range tr.Tunnels {
			if t.Opened && t.DoneStep >= 0 && (callingDone < 0 || t.DoneStep < callingDone) {
				callingDone = t.DoneStep
			}
		}
		completeBefore := closeRecv >= 0 && (callingDone < 0 || closeRecv <= callingDone)
		for _, o := range tr.Ops {
			if o.RPC != i || o.Side != "caller" || o.Pending() {
				continue
			}
			// an op in progress when a caller-side-local cause struck must return in that very step
			// (if the teardown call itself was held up behind a full bounded carrier, returned != fired, the clause is moot)
			// (and on a revision-zero tunnel the receive loop may be parked behind a consumer that does not read, so the
			// tunnel cannot notice its own end until that consumer moves: asserted only with flow control negotiated)
			if callerSideLocal(c.Cfg.Dir, ev.Kind) && er.Returned == er.Fired && negotiatedFC(tr) && !parkArmed(c) && o.Start <= er.Fired && o.End > er.Fired && !o.CapBlocked && (o.Kind == "recv" || o.Kind == "send" || o.Kind == "header" || o.Kind == "invoke") {
				add("caller_not_released_immediately", o.End, "rpc %d: %s#%d was blocked when the tunnel ended at step %d but returned only at step %d", i, o.Kind, o.Idx, er.Fired, o.End)
			}
			terminalOK := (o.Kind == "recv" && o.Code == CodeEOF) || (o.Kind == "invoke" && o.Code == CodeNil)
			if terminalOK && o.End > er.Fired && !completeBefore && !strings.HasPrefix(c.Cfg.Dir, "nested") {
				// it was in flight when the tunnel ended, yet reported success
				add("in_flight_call_reported_ok", o.End, "rpc %d: %s returned OK at step %d although the tunnel ended at step %d before its close_stream had arrived (close received at %d)", i, o.Kind, o.End, er.Fired, closeRecv)
			}
		}
	}
	// --- RPCs started afterwards fail at once, without a frame
	if tr.Probe != nil {
		p := tr.Probe
		switch {
		case !p.Returned:
			add("call_after_end_hangs", p.Step, "an RPC started after the tunnel ended never returned")
		case p.Code == CodeNil && !(c.Cfg.Dir == "rev" && len(c.Cfg.Tunnels) > 1):
			add("call_after_end_succeeded", p.Step, "an RPC started after the tunnel ended succeeded")
		}
	}
	return vs
}

func ntC04(c *Case, tr *Trace) bool { return faultStruckInFlight(c, tr) }

func labelsC04(c *Case, tr *Trace) []string {
	ls := commonLabels(c, tr)
	if len(c.Events) == 0 || len(tr.Events) == 0 || tr.Events[0].Fired < 0 {
		return ls
	}
	fired := tr.Events[0].Fired
	ix := buildWireIndex(tr)
	for i := range c.RPCs {
		k, ok := ix.keyOf[i]
		if !ok {
			continue
		}
		var nsStep, hdr, closeEm, halfClose = -1, -1, -1, -1
		partial := false
		want, got := 0, 0
		for _, f := range ix.byStream[k] {
			if f.Step > fired || f.SendErr != "" {
				continue
			}
			switch f.F.Kind {
			case "new_stream":
				nsStep = f.Step
			case "headers":
				hdr = f.Step
			case "close":
				closeEm = f.Step
			case "half_close":
				halfClose = f.Step
			case "msg":
				want, got = int(f.F.Size), f.F.DataLen
			case "more":
				got += f.F.DataLen
			}
		}
		partial = got < want
		if nsStep < 0 || closeEm >= 0 {
			continue
		}
		phase := "open"
		switch {
		case partial:
			phase = "mid_message"
		case hdr < 0:
			phase = "before_headers"
		case halfClose >= 0:
			phase = "half_closed"
		}
		for _, o := range tr.Ops {
			if o.RPC == i && o.Kind == "send" && o.Start <= fired && (o.Pending() || o.End > fired) {
				phase = "blocked_in_send"
			}
		}
		ls = append(ls, "phase="+c.RPCs[i].Shape+"/"+phase+"/"+c.Events[0].Kind)
	}
	return ls
}

// parkArmed: the harness itself may hold a goroutine at a park-type yield point (inside the carrier's SendMsg, say, with the
// library's send mutex taken); what waits behind it is not the library waiting, so "immediately" cannot be demanded.
func parkArmed(c *Case) bool {
	for _, y := range c.Yields {
		if y.Kind == "park" {
			return true
		}
	}
	return false
}
