package harness

// fcx: unit-level interleaving explorer for flow_control.go. Through the
// verif-tag constructors it drives a bare sender with two goroutines - S (calls
// send for a list of messages) and U (applies a list of credits through
// updateWindow, as the single receive loop does) - plus the atomic action
// "cancel the context". Yield points inside send and updateWindow park the
// calling goroutine; the root goroutine of a synctest bubble waits for
// quiescence, sees who is parked, and releases exactly one of them. Small
// configurations are enumerated exhaustively by depth-first enumeration of
// the choice tree (stateless re-execution).

import (
	"bytes"
	"context"
	"errors"
	"fmt"
	"strings"
	"testing"
	"testing/synctest"

	"github.com/jhump/grpctunnel"
)

type FcxResult struct {
	Schedules   int      `json:"schedules"`
	Exhausted   bool     `json:"exhausted"` // every schedule of the configuration was executed
	Interesting int      `json:"interesting"` // schedules in which an update step ran while the sender sat between its load and its wait/CAS
	Blocked     int      `json:"blocked"`     // schedules that ended with the sender legitimately waiting for credit
	Violations  []string `json:"violations,omitempty"`
	FailPath    []int    `json:"fail_path,omitempty"`
	Steps       int      `json:"steps"`
}

type fcxRun struct {
	cfg *FcxCase

	parked map[string]chan struct{} // "S" / "U" -> release channel
	point  map[string]string

	// observations
	chunks      [][]byte
	firsts      []bool
	sizes       []uint32
	sentBytes   int64
	creditBegun int64 // credits whose updateWindow call has started
	sendRes     []error
	sDone, uDone bool
	cancelled   bool
	sfCalls     int
	violations  []string
	interesting bool
	steps       int
	counts      []int // number of options at each decision point
}

func fcxMsg(i, n int) []byte {
	b := make([]byte, n)
	for j := range b {
		b[j] = byte(i*31 + j*7 + 1)
	}
	return b
}

// run executes one schedule: at decision point i it takes path[i] (0 beyond the path).
func (r *fcxRun) run(path []int) {
	cfg := r.cfg
	ctx, cancel := context.WithCancel(context.Background())
	defer cancel()
	r.parked = map[string]chan struct{}{}
	r.point = map[string]string{}
	hook := func(point string) {
		who := "S"
		if strings.HasPrefix(point, "sender.update") {
			who = "U"
		}
		ch := make(chan struct{})
		r.parked[who] = ch
		r.point[who] = point
		<-ch
	}
	grpctunnel.VerifSetYieldHook(hook)
	defer grpctunnel.VerifSetYieldHook(nil)

	var msgIdx int
	sendFunc := func(data []byte, total uint32, first bool) error {
		r.sfCalls++
		if cfg.FailAt > 0 && r.sfCalls == cfg.FailAt {
			return errors.New("scripted sendFunc failure")
		}
		// safety at every sendFunc call
		r.sentBytes += int64(len(data))
		if !cfg.NoFC && r.sentBytes > int64(cfg.Window)+r.creditBegun {
			r.violations = append(r.violations, fmt.Sprintf("window_exceeded: %d bytes handed to sendFunc with initial window %d and %d bytes of credit begun", r.sentBytes, cfg.Window, r.creditBegun))
		}
		if len(data) > 16384 {
			r.violations = append(r.violations, fmt.Sprintf("oversized_chunk: %d bytes in one chunk", len(data)))
		}
		r.chunks = append(r.chunks, append([]byte(nil), data...))
		r.firsts = append(r.firsts, first)
		r.sizes = append(r.sizes, total)
		_ = msgIdx
		return nil
	}
	var snd grpctunnel.VerifSender
	if cfg.NoFC {
		snd = grpctunnel.VerifNewSenderWithoutFlowControl(sendFunc)
	} else {
		snd = grpctunnel.VerifNewSender(ctx, cfg.Window, sendFunc)
	}
	go func() { // S
		for i, n := range cfg.Msgs {
			msgIdx = i
			err := snd.Send(fcxMsg(i, n))
			r.sendRes = append(r.sendRes, err)
			if err != nil {
				break
			}
		}
		r.sDone = true
	}()
	go func() { // U
		for _, c := range cfg.Credits {
			r.creditBegun += int64(c)
			snd.UpdateWindow(c)
		}
		r.uDone = true
	}()
	for dp := 0; ; {
		synctest.Wait()
		var opts []string
		if _, ok := r.parked["S"]; ok {
			opts = append(opts, "S")
		}
		if _, ok := r.parked["U"]; ok {
			opts = append(opts, "U")
		}
		if cfg.Cancel && !r.cancelled && !r.sDone {
			opts = append(opts, "cancel")
		}
		if len(opts) == 0 {
			break
		}
		// the cancel action is only a real alternative while something else can still happen or S is blocked
		choice := 0
		r.counts = append(r.counts, len(opts))
		if dp < len(path) {
			choice = path[dp] % len(opts)
		}
		dp++
		r.steps++
		switch opts[choice] {
		case "cancel":
			r.cancelled = true
			cancel()
		case "U":
			if p := r.point["S"]; p == "sender.afterLoad" || p == "sender.beforeWait" || p == "sender.beforeCAS" {
				if _, sp := r.parked["S"]; sp {
					r.interesting = true
				}
			}
			ch := r.parked["U"]
			delete(r.parked, "U")
			close(ch)
		case "S":
			ch := r.parked["S"]
			delete(r.parked, "S")
			close(ch)
		}
	}
	r.judge()
	// let a blocked sender go so that the bubble can exit
	cancel()
	synctest.Wait()
	for len(r.parked) > 0 {
		for k, ch := range r.parked {
			delete(r.parked, k)
			close(ch)
		}
		synctest.Wait()
	}
}

// judge applies the terminal-state rule and the chunking law.
func (r *fcxRun) judge() {
	cfg := r.cfg
	add := func(f string, a ...any) { r.violations = append(r.violations, fmt.Sprintf(f, a...)) }
	var totalData, totalCredit int64 = 0, int64(cfg.Window)
	for _, n := range cfg.Msgs {
		totalData += int64(n)
	}
	for _, c := range cfg.Credits {
		totalCredit += int64(c)
	}
	if !r.uDone {
		add("updater_stuck: updateWindow never returned")
	}
	failed := cfg.FailAt > 0 && r.sfCalls >= cfg.FailAt
	switch {
	case r.sDone:
		// returned: every completed send either succeeded or failed with the scripted error / the context error
		for i, err := range r.sendRes {
			switch {
			case err == nil:
			case failed && err.Error() == "scripted sendFunc failure":
			case r.cancelled && errors.Is(err, context.Canceled):
			default:
				add("unexpected_send_error: send #%d returned %v (cancelled=%v failed=%v)", i, err, r.cancelled, failed)
			}
		}
		if !failed && !r.cancelled {
			if len(r.sendRes) != len(cfg.Msgs) {
				add("sender_gave_up: %d of %d sends completed", len(r.sendRes), len(cfg.Msgs))
			}
			if r.sentBytes != totalData {
				add("bytes_lost: %d bytes handed to sendFunc, messages total %d", r.sentBytes, totalData)
			}
		}
	default:
		// S is blocked inside the library (nobody is parked, U has finished)
		if r.cancelled {
			add("sender_ignores_cancellation: send still blocked after the context was cancelled")
		} else if cfg.NoFC {
			add("sender_blocked_without_flow_control")
		} else if r.sentBytes != totalCredit {
			// (a sender with an exhausted window may wait even with a zero-length message in hand: the statement
			// allows blocking whenever the whole window is outstanding)
			add("sender_stranded: send is blocked with %d bytes sent although %d bytes of credit were granted (data %d)", r.sentBytes, totalCredit, totalData)
		}
	}
	// chunking law: the chunks, in order, are exactly the messages; first/size flags are right
	mi, off := 0, 0
	newMsg := true
	for ci, ch := range r.chunks {
		if mi >= len(cfg.Msgs) {
			add("chunks_corrupted: chunk %d (%d bytes) after the last message", ci, len(ch))
			break
		}
		msg := fcxMsg(mi, cfg.Msgs[mi])
		if newMsg {
			if !r.firsts[ci] {
				add("chunk_flags: chunk %d starts message %d but is not flagged first", ci, mi)
			}
		} else if r.firsts[ci] {
			add("chunk_flags: chunk %d is flagged first in the middle of message %d", ci, mi)
		}
		if int(r.sizes[ci]) != len(msg) {
			add("chunk_flags: chunk %d announces total size %d, message %d has %d bytes", ci, r.sizes[ci], mi, len(msg))
		}
		if off+len(ch) > len(msg) || !bytes.Equal(ch, msg[off:off+len(ch)]) {
			add("chunks_corrupted: chunk %d (%d bytes at offset %d) does not match message %d", ci, len(ch), off, mi)
			break
		}
		if len(ch) == 0 && len(msg) > 0 {
			add("chunks_corrupted: empty chunk %d inside message %d", ci, mi)
		}
		off += len(ch)
		newMsg = false
		if off == len(msg) {
			mi, off, newMsg = mi+1, 0, true
		}
	}
	if r.sDone && !failed && !r.cancelled && (mi != len(cfg.Msgs) || off != 0) {
		add("bytes_lost: all sends returned nil but the chunks cover only %d of %d messages", mi, len(cfg.Msgs))
	}
}

// exploreFcx runs one configuration: all schedules (DFS over the choice tree) or the single schedule given by tape.
func exploreFcx(t *testing.T, cfg *FcxCase, tape []int) *FcxResult {
	res := &FcxResult{}
	runOne := func(path []int) *fcxRun {
		r := &fcxRun{cfg: cfg}
		func() {
			defer func() {
				if p := recover(); p != nil {
					r.violations = append(r.violations, fmt.Sprintf("bubble_failure: %v", p))
				}
			}()
			synctest.Test(t, func(t *testing.T) { r.run(path) })
		}()
		res.Schedules++
		Progress.Add(1)
		res.Steps += r.steps
		if r.interesting {
			res.Interesting++
		}
		if !r.sDone && len(r.violations) == 0 {
			res.Blocked++
		}
		if len(r.violations) > 0 && len(res.Violations) == 0 {
			res.Violations = r.violations
			res.FailPath = append([]int(nil), path...)
		}
		return r
	}
	if !cfg.Exhaust {
		runOne(tape)
		return res
	}
	max := cfg.MaxRuns
	if max <= 0 {
		max = 200000
	}
	stack := [][]int{{}}
	for len(stack) > 0 {
		if res.Schedules >= max {
			return res
		}
		path := stack[len(stack)-1]
		stack = stack[:len(stack)-1]
		r := runOne(path)
		if len(res.Violations) > 0 {
			return res
		}
		for i := len(path); i < len(r.counts); i++ {
			for j := 1; j < r.counts[i]; j++ {
				np := make([]int, i+1)
				copy(np, path)
				np[i] = j
				stack = append(stack, np)
			}
		}
	}
	res.Exhausted = true
	return res
}

func execFcx(t *testing.T, c *Case) *Trace {
	tr := newWorldTrace()
	switch c.Fcx.Kind {
	case "receiver", "nofc_receiver":
		tr.Fcx = runReceiverModel(t, c.Fcx)
	default:
		tr.Fcx = exploreFcx(t, c.Fcx, c.Tape)
	}
	tr.Steps = tr.Fcx.Steps
	return tr
}

func monFcx(prop string) Monitor {
	return func(c *Case, tr *Trace) []Violation {
		var vs []Violation
		if tr.Fcx == nil {
			return nil
		}
		for _, v := range tr.Fcx.Violations {
			class := v
			if i := strings.Index(v, ":"); i > 0 {
				class = v[:i]
			}
			ps := map[string]bool{"C05": true}
			switch class {
			case "window_exceeded", "oversized_chunk", "receiver_window":
				ps = map[string]bool{"C06": true}
			case "credit_mismatch":
				ps = map[string]bool{"C05": true, "C06": true} // a leak strands senders (C05); a surplus exceeds consumption (C06)
			case "chunks_corrupted", "chunk_flags", "bytes_lost":
				ps = map[string]bool{"C01": true}
			}
			if !ps[prop] {
				continue
			}
			vs = append(vs, Violation{Prop: prop, Class: class, Details: fmt.Sprintf("fcx %+v: %s (schedule %v)", *c.Fcx, v, tr.Fcx.FailPath)})
		}
		return vs
	}
}

// ---------------------------------------------------------------------------
// receiver: model-based (sequential operations plus at most one blocked reader)

func runReceiverModel(t *testing.T, cfg *FcxCase) *FcxResult {
	res := &FcxResult{Schedules: 1, Exhausted: false}
	add := func(f string, a ...any) {
		if len(res.Violations) < 5 {
			res.Violations = append(res.Violations, fmt.Sprintf(f, a...))
		}
	}
	defer func() {
		if p := recover(); p != nil {
			add("bubble_failure: %v", p)
		}
	}()
	synctest.Test(t, func(t *testing.T) {
		var credits int64
		type item struct {
			id   int
			size int
		}
		var rcv grpctunnel.VerifReceiver
		ctx, cancelCtx := context.WithCancel(context.Background())
		defer cancelCtx()
		nofc := cfg.Kind == "nofc_receiver"
		if nofc {
			rcv = grpctunnel.VerifNewReceiverWithoutFlowControl(ctx)
		} else {
			rcv = grpctunnel.VerifNewReceiver(func(x any) uint { return uint(x.(item).size) }, func(n uint32) { credits += int64(n) }, cfg.Window)
		}
		// model
		var queue []item
		window := int64(cfg.Window)
		closed, cancelled := false, false
		var dequeued int64
		type dres struct {
			it any
			ok bool
		}
		var pendingDeq chan dres
		var pendingAcc chan error // no-FC receiver: accept may block when the slot is full
		var pendingAccItem item
		nextID := 0
		checkDeq := func(r dres, where string) {
			// what the model says a returning dequeue must deliver
			switch {
			case cancelled && !nofc:
				if r.ok {
					add("receiver_model: dequeue returned an item after cancel (%s)", where)
				}
			case len(queue) > 0:
				want := queue[0]
				queue = queue[1:]
				if !r.ok || r.it.(item) != want {
					add("receiver_model: dequeue returned %v,%v; model head is %v (%s)", r.it, r.ok, want, where)
				} else {
					window += int64(want.size)
					dequeued += int64(want.size)
				}
			case closed || (nofc && cancelled):
				if r.ok {
					add("receiver_model: dequeue returned an item from an empty closed receiver (%s)", where)
				}
			default:
				add("receiver_model: dequeue returned (%v,%v) although the model says it must block (%s)", r.it, r.ok, where)
			}
		}
		poll := func(where string) {
			synctest.Wait()
			if pendingAcc != nil {
				select {
				case err := <-pendingAcc:
					pendingAcc = nil
					if err != nil {
						add("receiver_model: blocked accept returned %v (%s)", err, where)
					}
					if !closed && !cancelled {
						queue = append(queue, pendingAccItem)
					}
				default:
				}
			}
			if pendingDeq != nil {
				select {
				case r := <-pendingDeq:
					pendingDeq = nil
					checkDeq(r, where)
				default:
					if len(queue) > 0 || closed || cancelled {
						add("receiver_stranded: a blocked dequeue was not woken (queue %d, closed %v, cancelled %v) (%s)", len(queue), closed, cancelled, where)
					}
				}
			}
			// a blocked accept may have gone through after the dequeue
			synctest.Wait()
			if pendingAcc != nil {
				select {
				case err := <-pendingAcc:
					pendingAcc = nil
					if err != nil {
						add("receiver_model: blocked accept returned %v (%s)", err, where)
					}
					if !closed && !cancelled {
						queue = append(queue, pendingAccItem)
					}
				default:
				}
			}
		}
		for oi, op := range cfg.Ops {
			res.Steps++
			where := fmt.Sprintf("op %d %s(%d)", oi, op.Kind, op.Size)
			switch op.Kind {
			case "accept":
				if pendingAcc != nil {
					continue
				}
				it := item{id: nextID, size: op.Size}
				nextID++
				if nofc {
					ch := make(chan error, 1)
					pendingAcc, pendingAccItem = ch, it
					go func() { ch <- rcv.Accept(it) }()
					poll(where)
					if pendingAcc != nil && len(queue) == 0 && pendingDeq == nil && !closed && !cancelled {
						add("receiver_model: accept blocked although the one-slot receiver is empty (%s)", where)
					}
					continue
				}
				err := rcv.Accept(it)
				switch {
				case closed:
					if err != nil {
						add("receiver_model: accept after close returned %v (%s)", err, where)
					}
				case int64(op.Size) > window:
					if err == nil {
						add("receiver_window: accept of %d bytes succeeded with only %d bytes of window left (%s)", op.Size, window, where)
					}
				default:
					if err != nil {
						add("receiver_window: accept of %d bytes refused (%v) although %d bytes of window are left (%s)", op.Size, err, window, where)
					} else {
						window -= int64(op.Size)
						queue = append(queue, it)
					}
				}
				poll(where)
			case "dequeue":
				if pendingDeq != nil {
					continue
				}
				ch := make(chan dres, 1)
				pendingDeq = ch
				go func() {
					it, ok := rcv.Dequeue()
					ch <- dres{it, ok}
				}()
				poll(where)
			case "close":
				rcv.Close()
				closed = true
				if nofc {
					cancelled = true // the one-slot receiver has a single notion of closing
				}
				poll(where)
			case "cancel":
				rcv.Cancel()
				cancelled = true
				if nofc {
					closed = true
				} else {
					queue = nil
				}
				poll(where)
			}
			if !nofc && credits != dequeued {
				add("credit_mismatch: %d bytes of credit returned, %d bytes dequeued (%s)", credits, dequeued, where)
			}
			var buffered int64
			for _, q := range queue {
				buffered += int64(q.size)
			}
			if !nofc && buffered > int64(cfg.Window) {
				add("receiver_window: %d bytes buffered with an advertised window of %d (%s)", buffered, cfg.Window, where)
			}
		}
		// release whatever is still blocked
		rcv.Cancel()
		rcv.Close()
		synctest.Wait()
	})
	return res
}
