package harness

// Differential self-test of the harness carrier (memconn) against real grpc-go: the same fault-free generated workloads
// run free on both carriers; every application-level observation (per actor and operation: status code, payload
// integrity and size, header / trailer metadata) must agree. A difference would mean the carrier the simulation is
// built on does not behave like the transport the library really runs on. Not a property check: `bin/check selftest`.

import (
	"fmt"
	"os"
	"sort"
	"testing"

	"pgregory.net/rapid"
)

func outcomeDigest(tr *Trace) map[string]string {
	out := map[string]string{}
	for _, o := range tr.Ops {
		if o.Kind == "abandon" {
			continue
		}
		k := fmt.Sprintf("%s %s#%d", o.Actor, o.Kind, o.Idx)
		v := fmt.Sprintf("code=%d", o.Code)
		if o.Pending() {
			v = "pending"
		}
		if o.Payload != nil {
			v += " payload=" + o.Payload.String()
		}
		if o.HasMD || len(o.MD) > 0 {
			v += " md=" + mdString(o.MD)
		}
		if o.TrailerNow != nil {
			v += " trailer_now=" + mdString(o.TrailerNow)
		}
		out[k] = v
	}
	for _, inv := range tr.Invocations {
		out[fmt.Sprintf("invocation rpc%d", inv.RPC)] = fmt.Sprintf("method=%s md=%s", inv.Method, mdString(inv.MD))
	}
	return out
}

func TestSelfDifferential(t *testing.T) {
	if os.Getenv("VERIF_SELFTEST") == "" {
		t.Skip("set VERIF_SELFTEST=1 (bin/check selftest)")
	}
	cases, diffs := 0, 0
	rapid.Check(t, func(rt *rapid.T) {
		var c *Case
		if rapid.Bool().Draw(rt, "profile") {
			c = genMixed(rt)
		} else {
			c = genC02(rt) // handler header / trailer / status behaviours, metadata grammar, call options
		}
		// fault-free, free-running, no schedule manipulation
		c.Yields, c.Events, c.Tape = nil, nil, nil
		c.Free = true
		c.Cfg.Cap = 0
		if c.Cfg.ClientFC == "legacy" {
			c.Cfg.ClientFC = "off" // (the legacy emulation strips headers inside memconn only)
		}
		if c.Cfg.ServerFC == "legacy" {
			c.Cfg.ServerFC = "off"
		}
		for i := range c.RPCs {
			c.RPCs[i].Fuse = ""
			c.RPCs[i].HWaitRecv = true // handlers return only after reading their whole input: every observation is schedule-independent
			if c.RPCs[i].Creds != nil {
				// the library decides "secure" by peer.AuthInfo != nil; grpc-go's insecure credentials carry a non-nil AuthInfo
				// (security level NoSecurity), the harness carrier's insecure peer carries none: a known difference, outside the
				// 18 properties (DESIGN section 12, observations)
				cr := *c.RPCs[i].Creds
				cr.RequireTLS = false
				c.RPCs[i].Creds = &cr
			}
			c.RPCs[i].PeerOpt = false // peer addresses differ by construction
		}
		a := *c
		a.Cfg.Carrier = ""
		b := *c
		b.Cfg.Carrier = "bufconn"
		ta := execStress(t, &a)
		tb := execStress(t, &b)
		cases++
		if ta.Aborted != "" || tb.Aborted != "" {
			rt.Fatalf("run did not finish: memconn=%q grpc=%q", ta.Aborted, tb.Aborted)
		}
		da, db := outcomeDigest(ta), outcomeDigest(tb)
		var keys []string
		for k := range da {
			keys = append(keys, k)
		}
		for k := range db {
			if _, ok := da[k]; !ok {
				keys = append(keys, k)
			}
		}
		sort.Strings(keys)
		for _, k := range keys {
			if da[k] != db[k] {
				diffs++
				if os.Getenv("VERIF_SELFTEST_TRACE") != "" {
					fmt.Println("DIGEST sizes", len(da), len(db), len(ta.Ops), len(tb.Ops))
					for _, o := range ta.Ops {
						if o.Actor == "h2.recv" {
							fmt.Printf("TA op %+v\n", *o)
						}
					}
					fmt.Println("MEMCONN\n" + ta.Excerpt(200))
					fmt.Println("GRPC\n" + tb.Excerpt(200))
				}
				rt.Fatalf("carriers disagree on %s:\n  memconn: %s\n  grpc-go: %s\ncase: %s", k, da[k], db[k], c.JSON())
			}
		}
	})
	fmt.Printf("SELFTEST differential: %d fault-free workloads on both carriers, %d disagreements\n", cases, diffs)
}
